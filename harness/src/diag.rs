//! `pbv diag`: diagnostics decoding through the public DP path (C17).  A DpMaster with one
//! peripheral is driven through its public `FdlApplication` interface: the first diagnostics
//! request (Offline probe) is answered with the vector under test, bring-up is completed with short
//! confirmations and the validating diagnostics request is answered with a second vector, so that
//! storing / keeping of extended diagnostics is exercised too.  The DP scanner's decoding of the
//! same PDUs is recorded as well.
use crate::dp::enc_data;
use crate::util::*;
use profirust::dp;
use profirust::fdl::{self, FdlApplication};
use profirust::time::Instant;
use rand::{Rng, SeedableRng};
use serde_json::{json, Value};

fn block_json(b: &dp::ExtDiagBlock) -> Value {
    match b {
        dp::ExtDiagBlock::Identifier(bits) => {
            json!({"k":"identifier","len": bits.len() / 8 + 1,"ones": bits.iter_ones().collect::<Vec<usize>>(),"bits": bits.len()})
        }
        dp::ExtDiagBlock::Channel(c) => {
            let dtype = match c.dtype {
                dp::ChannelDataType::Bit => 1,
                dp::ChannelDataType::Bit2 => 2,
                dp::ChannelDataType::Bit4 => 3,
                dp::ChannelDataType::Byte => 4,
                dp::ChannelDataType::Word => 5,
                dp::ChannelDataType::DWord => 6,
                dp::ChannelDataType::Invalid => 7,
            };
            let error = match c.error {
                dp::ChannelError::ShortCircuit => 1,
                dp::ChannelError::UnderVoltage => 2,
                dp::ChannelError::OverVoltage => 3,
                dp::ChannelError::OverLoad => 4,
                dp::ChannelError::OverTemperature => 5,
                dp::ChannelError::LineBreak => 6,
                dp::ChannelError::UpperLimitOvershoot => 7,
                dp::ChannelError::LowerLimitUndershoot => 8,
                dp::ChannelError::Error => 9,
                dp::ChannelError::Reserved(r) => r,
                dp::ChannelError::Vendor(v) => v,
            };
            let errk = match c.error {
                dp::ChannelError::Reserved(_) => "reserved",
                dp::ChannelError::Vendor(_) => "vendor",
                _ => "named",
            };
            json!({"k":"channel","len":3,"module":c.module,"channel":c.channel,"input":c.input,"output":c.output,"dtype":dtype,"error":error,"errk":errk})
        }
        dp::ExtDiagBlock::Device(d) => json!({"k":"device","len": d.len() + 1,"data": d}),
    }
}

struct Rig {
    dpm: dp::DpMaster<'static>,
    fdl: fdl::FdlActiveStation,
    h: dp::PeripheralHandle,
    bufsize: usize,
    stored: Vec<u8>,
}

const MASTER: u8 = 2;
const SLAVE: u8 = 7;

fn new_rig(bufsize: usize) -> Rig {
    let mut dpm = dp::DpMaster::new(Vec::new());
    let opts = dp::PeripheralOptions { ident_number: 0x1234, max_tsdr: 100, user_parameters: Some(&[]), config: Some(&[0x11]), ..Default::default() };
    let mut p = dp::Peripheral::new(SLAVE, opts, vec![0u8; 1], vec![0u8; 1]);
    if bufsize > 0 {
        p = p.with_diag_buffer(vec![0u8; bufsize]);
    }
    let h = dpm.add(p);
    dpm.enter_operate();
    let fdl = fdl::FdlActiveStation::new(fdl::ParametersBuilder::new(MASTER, profirust::Baudrate::B500000).build());
    Rig { dpm, fdl, h, bufsize, stored: vec![] }
}

/// ask the master for telegrams until it addresses the slave with the given DSAP (skipping global control)
fn next_request(r: &mut Rig, now: Instant, dsap: Option<u8>) -> bool {
    for _ in 0..6 {
        let mut buf = vec![0u8; 300];
        beat();
        let res = r.dpm.transmit_telegram(now, &r.fdl, fdl::TelegramTx::new(&mut buf), fdl::HighPrioOnly::No);
        if let Some(res) = res {
            let n = res.bytes_sent();
            if let Some(Ok((fdl::Telegram::Data(t), _))) = fdl::Telegram::deserialize(&buf[..n]) {
                if t.h.da == SLAVE && t.h.dsap == dsap {
                    return true;
                }
            }
        }
    }
    false
}

fn reply(r: &mut Rig, now: Instant, bytes: &[u8]) {
    if let Some(Ok((t, _))) = fdl::Telegram::deserialize(bytes) {
        beat();
        r.dpm.receive_reply(now, &r.fdl, SLAVE, t);
    }
}

/// feed one diagnostics PDU as the answer to a diagnostics request and record what the peripheral reports
fn feed(log: &mut EvLog, r: &mut Rig, now: Instant, pdu: &[u8]) {
    let prev = r.stored.clone();
    let frame = enc_data(MASTER, SLAVE, Some(62), Some(60), 0x08, pdu);
    let res = {
        let rr = &mut *r;
        guarded(|| {
            reply(rr, now, &frame);
            let h = rr.h;
            let p = rr.dpm.get_mut(h);
            let d = p.last_diagnostics();
            d.map(|d| {
                let stored = d.extended_diagnostics.raw_diag_buffer().map(|b| b.to_vec());
                // without a diagnostics buffer there is nothing to iterate, but iterating must still be total
                let blocks: Vec<Value> = d.extended_diagnostics.iter_diag_blocks().map(|b| block_json(&b)).collect();
                (d.flags.bits(), d.ident_number, d.master_address.map(|x| x as i32).unwrap_or(-1), stored, blocks)
            })
        })
    };
    match res {
        Err((msg, loc)) => log.push(json!({"ev":"Panic","during":"diag","msg":msg,"loc":short_loc(&loc),"pdu":pdu,"bufsize":r.bufsize})),
        Ok(None) => log.push(json!({"ev":"NoDiag","pdu":pdu,"bufsize":r.bufsize})),
        Ok(Some((flags, ident, master, stored, blocks))) => {
            // Debug formatting of everything (the logging path of the master does the same)
            let rr = &mut *r;
            let fmt = guarded(|| {
                let h = rr.h;
                let p = rr.dpm.get_mut(h);
                let d = p.last_diagnostics();
                format!("{:?}", d).len()
            });
            let stored_v = stored.clone().unwrap_or_default();
            r.stored = stored_v.clone();
            log.push(json!({"ev":"Diag","pdu":pdu,"bufsize":r.bufsize,"prev":prev,"flags":flags,"ident":ident,"master":master,
                "stored":stored_v,"blocks":blocks,"fmt_ok":fmt.is_ok()}));
            if let Err((msg, loc)) = fmt {
                log.push(json!({"ev":"Panic","during":"fmt","msg":msg,"loc":short_loc(&loc),"pdu":pdu,"bufsize":r.bufsize}));
            }
        }
    }
}

/// two vectors through one master: Offline probe, then the validating diagnosis after bring-up
fn case(log: &mut EvLog, bufsize: usize, a: &[u8], b: Option<&[u8]>) {
    let now = Instant::from_micros(1000);
    let mut r = new_rig(bufsize);
    if a.len() < 6 || !next_request(&mut r, now, Some(60)) {
        return;
    }
    feed(log, &mut r, now, a);
    if let Some(b) = b {
        if b.len() < 6 {
            return;
        }
        // complete the bring-up: Set_Prm -> SC, Chk_Cfg -> SC, then the validating diagnostics request
        let ok = guarded(|| {
            if !next_request(&mut r, now, Some(61)) {
                return false;
            }
            reply(&mut r, now, &[0xE5]);
            if !next_request(&mut r, now, Some(62)) {
                return false;
            }
            reply(&mut r, now, &[0xE5]);
            next_request(&mut r, now, Some(60))
        });
        if let Ok(true) = ok {
            feed(log, &mut r, now, b);
        }
    }
}

fn scan_case(log: &mut EvLog, pdu: &[u8]) {
    let now = Instant::from_micros(1000);
    let fdl_ = fdl::FdlActiveStation::new(fdl::ParametersBuilder::new(MASTER, profirust::Baudrate::B500000).build());
    let mut sc = dp::scan::DpScanner::new();
    let mut buf = vec![0u8; 300];
    let _ = sc.transmit_telegram(now, &fdl_, fdl::TelegramTx::new(&mut buf), fdl::HighPrioOnly::No);
    let frame = enc_data(MASTER, 0, Some(62), Some(60), 0x08, pdu);
    let r = guarded(|| {
        if let Some(Ok((t, _))) = fdl::Telegram::deserialize(&frame) {
            sc.receive_reply(now, &fdl_, 0, t);
        }
        sc.take_last_event()
    });
    match r {
        Err((msg, loc)) => log.push(json!({"ev":"Panic","during":"scan","msg":msg,"loc":short_loc(&loc),"pdu":pdu})),
        Ok(Some(dp::scan::DpScanEvent::PeripheralFound(d))) => {
            log.push(json!({"ev":"Scan","pdu":pdu,"sa":0,"address":d.address,"ident":d.ident,"master":d.master_address.map(|x| x as i32).unwrap_or(-1)}))
        }
        Ok(_) => {}
    }
}

pub fn run(args: &Args) {
    let out = args.str("out", "/dev/stdout");
    let seed: u64 = args.num("seed", 1);
    let part: u64 = args.num("part", 0);
    let parts: u64 = args.num("parts", 1);
    let thorough = args.str("tier", "quick") == "thorough";
    let mut log = EvLog::create(&out);
    let mut rng = rand::rngs::StdRng::seed_from_u64(seed);
    let hdr = |s1: u8, s2: u8| vec![s1 | 0x08, s2 | 0x04, 0, 255, 0x12, 0x34];
    let mut k = 0u64;
    let mut mine = || {
        k += 1;
        k % parts == part
    };
    // ---- exhaustive: all 1- and 2-byte extension strings (buffer 16 and buffer 1)
    for a in 0..=255u8 {
        if mine() {
            let mut p = hdr(0, 0);
            p.push(a);
            case(&mut log, 16, &p, None);
            case(&mut log, 1, &p, None);
        }
    }
    let firsts: Vec<u8> = if thorough { (0..=255).collect() } else { vec![0, 1, 2, 3, 0x40, 0x41, 0x42, 0x43, 0x44, 0x80, 0x81, 0xC0, 0xFF, 0x3F, 0x7F] };
    for &a in &firsts {
        for b in 0..=255u8 {
            if mine() {
                let mut p = hdr(0, 0);
                p.push(a);
                p.push(b);
                case(&mut log, 2, &p, None);
            }
        }
    }
    // ---- all channel-related blocks' third byte (data type x error type), a few module/channel bytes
    for h in [0x80u8, 0xBF, 0x85] {
        for b2 in [0x00u8, 0x7F, 0xC1] {
            for b3 in 0..=255u8 {
                if mine() {
                    let mut p = hdr(0, 0);
                    p.extend_from_slice(&[h, b2, b3]);
                    case(&mut log, 16, &p, None);
                }
            }
        }
    }
    // ---- all header bytes with structured tails
    for s1 in 0..=255u8 {
        if !mine() {
            continue;
        }
        let s2: u8 = rng.gen();
        let mut p = vec![s1, s2, rng.gen(), rng.gen(), rng.gen(), rng.gen()];
        let mut tail: Vec<u8> = vec![];
        for _ in 0..rng.gen_range(0..4) {
            match rng.gen_range(0..3) {
                0 => {
                    let n = rng.gen_range(1..5u8);
                    tail.push(0x40 | n);
                    for _ in 1..n {
                        tail.push(rng.gen());
                    }
                }
                1 => tail.extend_from_slice(&[0x80 | rng.gen_range(0..64u8), rng.gen(), rng.gen()]),
                _ => {
                    let n = rng.gen_range(1..6u8);
                    tail.push(n);
                    for _ in 1..n {
                        tail.push(rng.gen());
                    }
                }
            }
        }
        p.extend_from_slice(&tail);
        let second: Vec<u8> = { let mut q = vec![rng.gen::<u8>() & 0x08, 0x04, 0, 2, 0x12, 0x34]; for _ in 0..rng.gen_range(0..10) { q.push(rng.gen()); } q };
        case(&mut log, [0usize, 4, 16, 244][rng.gen_range(0..4)], &p, Some(&second));
        scan_case(&mut log, &p);
    }
    // ---- random PDUs of length 6..244, all buffer sizes
    let nr = if thorough { 6000 } else { 600 };
    for _ in 0..nr {
        if !mine() {
            continue;
        }
        let n = if rng.gen_bool(0.8) { rng.gen_range(6..30) } else { rng.gen_range(6..=244) };
        let mut p: Vec<u8> = (0..n).map(|_| rng.gen()).collect();
        if rng.gen_bool(0.7) {
            p[0] |= 0x08;
        }
        let n2 = rng.gen_range(6..40);
        let mut q: Vec<u8> = (0..n2).map(|_| rng.gen()).collect();
        if rng.gen_bool(0.5) {
            q[0] |= 0x08;
        } else {
            q[0] &= !0x08;
        }
        let bs = if rng.gen_bool(0.3) { rng.gen_range(0..=244) } else { [0usize, 1, 2, 8, 16, 64][rng.gen_range(0..6)] };
        case(&mut log, bs, &p, Some(&q));
        if rng.gen_bool(0.2) {
            scan_case(&mut log, &p);
        }
    }
    log.flush();
    eprintln!("diag: {} events", log.count);
}
