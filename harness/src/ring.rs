//! `pbv ring`: N real FdlActiveStations on the virtual bus under seeded random configurations,
//! join plans, jittered poll schedules, traffic applications and (mode fault/race) fault plans.
//! Serves C01 C02 C06 C11 C12 C13 C15 (TraceBus.tla).
use crate::util::*;
use crate::vbus::*;
use crate::world::*;
use profirust::{fdl, Baudrate};
use rand::{Rng, SeedableRng};
use serde_json::json;
use std::cell::RefCell;
use std::rc::Rc;

pub const BAUDS: [(Baudrate, i64, u16); 11] = [
    (Baudrate::B9600, 9600, 100),
    (Baudrate::B19200, 19200, 100),
    (Baudrate::B31250, 31250, 100),
    (Baudrate::B45450, 45450, 100),
    (Baudrate::B93750, 93750, 100),
    (Baudrate::B187500, 187500, 100),
    (Baudrate::B500000, 500000, 200),
    (Baudrate::B1500000, 1500000, 300),
    (Baudrate::B3000000, 3000000, 400),
    (Baudrate::B6000000, 6000000, 600),
    (Baudrate::B12000000, 12000000, 1000),
];

pub struct RingCfg {
    pub baud: Baudrate,
    pub rate: i64,
    pub slot: u16,
    pub hsa: u8,
    pub gap: u8,
    pub ttr: u32,
    pub addrs: Vec<u8>,
    pub periods: Vec<i64>, // us
    pub joins: Vec<i64>,   // us
    pub napps: Vec<usize>,
}

pub fn mk_station(c: &RingCfg, i: usize) -> fdl::FdlActiveStation {
    let mut b = fdl::ParametersBuilder::new(c.addrs[i], c.baud);
    b.highest_station_address(c.hsa).slot_bits(c.slot).gap_wait_rotations(c.gap);
    b.token_rotation_bits(c.ttr);
    fdl::FdlActiveStation::new(b.build())
}

/// Durations in ticks derived from the property text by the harness' own arithmetic.
pub struct Dur {
    pub bit_num: i64, // ticks per bit = 12e6 / rate (rational; use helpers)
    pub tid: i64,
    pub tsdr: i64,
    pub tsl: i64,
}
pub fn bits(rate: i64, n: i64) -> i64 {
    // exact for every baud rate but 45.45k (floored there)
    n * 12_000_000 / rate
}

fn gen_cfg(rng: &mut impl Rng, thorough: bool, mode: &str, with_apps: bool) -> RingCfg {
    loop {
        let (baud, rate, minslot) = BAUDS[rng.gen_range(0..BAUDS.len())];
        let slot: u16 = minslot + rng.gen_range(0..3) * 100;
        let hsas: &[u8] = if thorough { &[3, 4, 5, 8, 16, 32, 64, 126] } else { &[3, 4, 5, 8, 16, 32] };
        let hsa = hsas[rng.gen_range(0..hsas.len())];
        let nmax = if thorough { 5 } else { 4 };
        let n = rng.gen_range(2..=nmax).min(hsa as usize);
        let gap: u8 = if thorough && rng.gen_bool(0.3) { rng.gen_range(1..=100) } else { rng.gen_range(1..=5) };
        let mut addrs: Vec<u8> = vec![];
        let pool: Vec<u8> = vec![0, 1, hsa - 1, hsa.saturating_sub(2)];
        while addrs.len() < n {
            let a = if rng.gen_bool(0.6) {
                pool[rng.gen_range(0..pool.len())]
            } else if !addrs.is_empty() && rng.gen_bool(0.4) {
                // adjacent to an existing one (TS-1 / TS+1 placements)
                let b = addrs[rng.gen_range(0..addrs.len())];
                if rng.gen_bool(0.5) { (b + 1) % hsa } else { (b + hsa - 1) % hsa }
            } else {
                rng.gen_range(0..hsa)
            };
            if !addrs.contains(&a) {
                addrs.push(a);
            }
        }
        addrs.sort();
        let slot_us = slot as i64 * 1_000_000 / rate;
        let fine = rng.gen_bool(0.35);
        let periods: Vec<i64> = (0..n)
            .map(|_| if fine { (slot_us / 64).max(1) } else { (slot_us / rng.gen_range(4..16)).max(1) })
            .collect();
        let ttr: u32 = if with_apps { [256u32, 600, 1000, 4000, 20000, hsa as u32 * 5000][rng.gen_range(0..6)] } else { hsa as u32 * 5000 };
        // join plan
        let tto_min_us = (6 + 2 * addrs[0] as i64) * slot_us;
        let mut joins: Vec<i64> = vec![0; n];
        match mode {
            "race" => {
                // un-synchronised cold start: offsets within the first time-outs (disturbance for C06)
                for j in joins.iter_mut() {
                    *j = rng.gen_range(0..(8 * slot_us));
                }
                joins[rng.gen_range(0..n)] = 0;
            }
            _ => {
                let style = rng.gen_range(0..3);
                // any station may be a late joiner, also the lowest address (it then has to be found by
                // the wrap-around GAP of the highest ring member); at least one station starts cold
                let cold = rng.gen_range(0..n);
                for (i, j) in joins.iter_mut().enumerate() {
                    *j = match style {
                        0 => 0,
                        _ => {
                            if i == cold || rng.gen_bool(0.4) {
                                0
                            } else {
                                // onto an active bus: after the first claim plus up to 300 slot times
                                tto_min_us + (40 + rng.gen_range(0..300)) * slot_us
                            }
                        }
                    };
                }
                if style == 2 {
                    // several joiners at the same instant
                    let t = tto_min_us + (40 + rng.gen_range(0..300)) * slot_us;
                    for j in joins.iter_mut() {
                        if *j != 0 {
                            *j = t;
                        }
                    }
                }
                // the station that claims must be among the cold starters: lowest cold address
                // claims first; late joiners hear an active bus from then on
                let first_cold = (0..n).find(|i| joins[*i] == 0).unwrap();
                let claim_us = (6 + 2 * addrs[first_cold] as i64) * slot_us;
                for j in joins.iter_mut() {
                    if *j != 0 && *j < claim_us + 40 * slot_us {
                        *j = claim_us + 40 * slot_us;
                    }
                }
            }
        }
        let napps: Vec<usize> = (0..n).map(|_| if with_apps { rng.gen_range(0..=3) } else { 0 }).collect();
        let c = RingCfg { baud, rate, slot, hsa, gap, ttr, addrs, periods, joins, napps };
        // 32-bit tick budget in TLC: keep the latest possible deadline below 1.6e9 ticks
        let (bconv, brec) = bounds_ticks(&c);
        let last_join = c.joins.iter().max().unwrap() * TPU;
        if last_join + bconv + brec + bconv / 4 < 1_600_000_000 {
            return c;
        }
    }
}

/// DESIGN §5.4 bounds in ticks: (Bconv, Brec)
pub fn bounds_ticks(c: &RingCfg) -> (i64, i64) {
    let tsl = bits(c.rate, c.slot as i64);
    let n = c.addrs.len() as i64;
    let maxa = *c.addrs.iter().max().unwrap() as i64;
    let with_apps = c.napps.iter().any(|x| *x > 0);
    let tcycle = bits(c.rate, 2 * 11 * 40) + tsl; // request + reply of the traffic apps, generously
    let r = n * 4 * tsl + if with_apps { bits(c.rate, c.ttr as i64) + n * (tcycle + tsl) } else { 0 };
    let j = 2 * (c.gap as i64 + c.hsa as i64 + 8) * r;
    let tto = (6 + 2 * maxa) * tsl;
    let bconv = tto + 3 * c.hsa as i64 * tsl + (n + 1) * j;
    let brec = tto + 9 * tsl + bconv;
    (bconv, brec)
}

pub fn run(args: &Args) {
    let out = args.str("out", "/dev/stdout");
    let seed0: u64 = args.num("seed", 1);
    let runs: u64 = args.num("runs", 1);
    let thorough = args.str("tier", "quick") == "thorough";
    let mode = args.str("mode", "ff"); // ff | apps | fault | race
    let mut log = EvLog::create(&out);
    if mode == "phase" {
        phase_sweep(&mut log, thorough, seed0, runs as i64);
        log.flush();
        eprintln!("ring(phase): {} events", log.count);
        return;
    }
    if mode == "claim" {
        claim_sweep(&mut log, thorough, seed0);
        log.flush();
        eprintln!("ring(claim): {} events", log.count);
        return;
    }
    for r in 0..runs {
        let seed = seed0.wrapping_mul(1_000_003).wrapping_add(r);
        one_run(&mut log, seed, thorough, &mode);
        log.push(json!({"ev":"Reset"}));
    }
    log.flush();
    eprintln!("ring: {} events", log.count);
}

fn one_run(log: &mut EvLog, seed: u64, thorough: bool, mode: &str) {
    let mut rng = rand::rngs::StdRng::seed_from_u64(seed);
    let with_apps = mode == "apps" || (mode == "ff" && rng.gen_bool(0.3));
    let c = gen_cfg(&mut rng, thorough, mode, with_apps);
    let n = c.addrs.len();
    let bus = Bus::new(c.rate);
    let cblog: CbLog = Rc::new(RefCell::new(vec![]));
    let slot_us = c.slot as i64 * 1_000_000 / c.rate;
    let mut st: Vec<Station> = (0..n)
        .map(|i| {
            let a = c.addrs[i];
            let apps: Vec<TrafficApp> = (0..c.napps[i])
                .map(|k| {
                    // targets: an absent address (time-out), another master (status reply), broadcast SDN (no reply)
                    let other = c.addrs[(i + 1 + k) % n];
                    let mut wants = vec![Want::Status(100 + k as u8)];
                    if other != a {
                        wants.push(Want::Status(other));
                    }
                    if k % 2 == 1 {
                        wants.push(Want::Sdn);
                    }
                    if rng.gen_bool(0.4) {
                        // long requests: the telegram is still on the wire when the passer's slot timer would expire
                        wants.push(Want::Srd(if rng.gen_bool(0.5) { other } else { 100 + k as u8 }, [8usize, 40, 120, 244][rng.gen_range(0..4)]));
                    }
                    TrafficApp {
                        appetite: rng.gen_range(0..3),
                        wants,
                        log: cblog.clone(),
                        me: a,
                        id: k,
                        rng: rand::rngs::StdRng::seed_from_u64(seed * 100 + i as u64 * 10 + k as u64),
                        sent_this: 0,
                        budget: rng.gen_range(1..6),
                        low_only: rng.gen_bool(0.3),
                        nreq: 0,
                    }
                })
                .collect();
            Station { addr: a, fdl: mk_station(&c, i), phy: VPhy::new(bus.clone(), i), apps, period: c.periods[i], next: c.joins[i], join_at: c.joins[i], online: false, crashed: false, polls: 0 }
        })
        .collect();
    let (bconv, brec) = bounds_ticks(&c);
    let tsl = bits(c.rate, c.slot as i64);
    log.push(json!({
        "ev":"Cfg","mode":mode,"seed":seed,"stations":c.addrs,"hsa":c.hsa,"gap":c.gap,"baud":c.rate,"slot_bits":c.slot,
        "tid":bits(c.rate,33),"tsdr":bits(c.rate,11),"tsl":tsl,
        "tto":c.addrs.iter().map(|a| (6 + 2 * *a as i64) * tsl).collect::<Vec<_>>(),
        "period":c.periods.iter().map(|p| p * TPU).collect::<Vec<_>>(),
        "ttr":bits(c.rate, c.ttr as i64),"bconv":bconv,"brec":brec,"us":TPU,
        "napps":c.napps,"apps":with_apps,
        "cycle": bits(c.rate, 2 * 11 * 40) + tsl,
    }));

    // ---- fault plan (mode fault): decided after first convergence
    let vanish = mode == "vanish";    // like fault, but the only disturbance is 1..2 ring-adjacent stations that stop for good (or for long)
    let lasttx = mode == "lasttx";    // a telegram is truncated / garbled for everybody and its sender stops right after it
    let faulty = mode == "fault" || vanish || lasttx;
    let mut crash_after_tx: Option<usize> = None;
    let mut lasttx_armed: Option<usize> = None;
    let mut fault_phase = 0; // 0 waiting for convergence, 1 injecting, 2 done (FaultsEnd logged)
    let mut crashes: Vec<(usize, i64, Option<i64>, bool)> = vec![]; // (station, t_crash_us, t_restart_us, mid_tx)
    let mut faults_left = 0usize;
    let mut faults_end_us: i64 = if mode == "race" { *c.joins.iter().max().unwrap() } else { 0 };
    let mut race_end_logged = mode != "race";

    let mut last_pop_us: i64 = 0;
    let mut conv_at: Option<i64> = None;
    let mut tokens_at_conv = 0usize;
    let mut polls: u64 = 0;
    let want_rot = {
        let gapsz = c.hsa as usize;
        // enough stable rotations to see the GAP cadence: |GAP| + G + 6 visits, capped
        (gapsz + c.gap as usize + 8).min(if thorough { 260 } else { 90 })
    };
    let count_tokens = |bus: &Bus| bus.txs.iter().filter(|t| t.bytes.first() == Some(&0xDC)).count();
    loop {
        let (i, t) = st.iter().enumerate().map(|(i, s)| (i, s.next)).min_by_key(|x| x.1).unwrap();
        let tt = t * TPU;
        // ---- deadlines
        let deadline = if faulty || mode == "race" {
            if fault_phase == 2 || mode == "race" { faults_end_us * TPU + brec } else { i64::MAX }
        } else {
            last_pop_us * TPU + bconv
        };
        if tt > deadline.saturating_add(4 * tsl) {
            break;
        }
        if faulty && fault_phase < 2 && tt > last_pop_us * TPU + 2 * bconv + brec {
            break; // never converged / faults never consumed: C02 reports that, not C06
        }
        if !race_end_logged && t >= faults_end_us {
            log.push(json!({"ev":"FaultsEnd","t":faults_end_us * TPU}));
            race_end_logged = true;
        }
        // ---- crash / restart
        if let Some(k) = crashes.iter().position(|c| c.0 == i) {
            let (_, tc, tb, _mid) = crashes[k];
            if !st[i].crashed && t >= tc && fault_phase == 1 && st[i].online {
                st[i].crashed = true;
                let cut = bus.borrow_mut().cut(i, tt);
                log.push(json!({"ev":"Offline","st":st[i].addr,"t":tt,"mid_tx":cut}));
                last_pop_us = t;
                if tb.is_none() {
                    crashes.remove(k);
                    st[i].next = i64::MAX / 4;
                    continue;
                }
            }
            if st[i].crashed {
                if let Some(tb) = tb {
                    if t >= tb {
                        st[i].crashed = false;
                        st[i].fdl = mk_station(&c, i);
                        st[i].phy.reset(tt);
                        st[i].online = false; // set_online below
                        crashes.remove(k);
                    }
                }
            }
        }
        if st[i].crashed {
            st[i].next = t + st[i].period;
            continue;
        }
        if !st[i].online {
            st[i].fdl.set_online();
            st[i].online = true;
            if t > 0 {
                st[i].phy.reset(tt);
            }
            log.push(json!({"ev":"Online","st":st[i].addr,"t":tt}));
            last_pop_us = t;
        }
        let per = st[i].period;
        match poll_station(&mut st[i], t, &bus, &cblog, log, false) {
            PollOutcome::Panicked => break,
            _ => {}
        }
        polls += 1;
        st[i].next = t + 1.max(per / 2 + rng.gen_range(0..=per / 2));
        if std::env::var("PBV_DEBUG").is_ok() && fault_phase == 2 && polls % 3000 == 0 {
            let v = st[i].fdl.verif_view();
            log.push(json!({"ev":"Dbg","st":st[i].addr,"t":tt,"state":v.state,"lba":v.last_bus_activity_micros,"pend":v.pending_bytes,"now_us":t}));
        }
        if let Some(from) = lasttx_armed {
            let ntx = bus.borrow().txs.len();
            if ntx > from {
                let (is_gap_to_nobody, pending_fault) = {
                    let b = bus.borrow();
                    let l = b.txs.last().unwrap();
                    (l.bytes.len() == 6 && l.bytes[0] == 0x10 && (l.bytes[3] & 0x4F) == 0x49 && !c.addrs.contains(&l.bytes[1]) && l.sender < n, b.fault_at.contains_key(&ntx))
                };
                if is_gap_to_nobody && !pending_fault {
                    let kind = [FaultKind::Truncate, FaultKind::Garble, FaultKind::Truncate][rng.gen_range(0..3)];
                    bus.borrow_mut().fault_at.insert(ntx, Fault { kind, rcv: None });
                    crash_after_tx = Some(ntx);
                    lasttx_armed = None;
                }
            }
        }
        if let Some(idx) = crash_after_tx {
            if bus.borrow().txs.len() > idx {
                // the faulted telegram is on the wire: its sender never polls again (or only much later)
                let sender = bus.borrow().txs[idx].sender;
                if sender < n && !st[sender].crashed {
                    st[sender].crashed = true;
                    log.push(json!({"ev":"Offline","st":st[sender].addr,"t":tt,"mid_tx":false}));
                    last_pop_us = t;
                    if rng.gen_bool(0.3) {
                        crashes.push((sender, t, Some(t + rng.gen_range(100..800) * slot_us), false));
                    } else {
                        st[sender].next = i64::MAX / 4;
                    }
                }
                crash_after_tx = None;
            }
        }

        // ---- convergence bookkeeping (harness-side, only to decide when to stop / inject)
        if polls % 32 == 0 {
            let live: Vec<u8> = st.iter().filter(|s| s.online && !s.crashed).map(|s| s.addr).collect();
            let all_joined = st.iter().all(|s| s.online || s.next >= i64::MAX / 8);
            let ok = all_joined
                && st.iter().filter(|s| s.online && !s.crashed).all(|s| {
                    s.fdl.is_in_ring() && s.fdl.inspect_token_ring().iter_active_stations().collect::<Vec<u8>>() == live
                });
            if ok && conv_at.is_none() {
                conv_at = Some(t);
                tokens_at_conv = count_tokens(&bus.borrow());
            }
            if !ok {
                conv_at = None;
            }
            if let Some(_) = conv_at {
                let tok = count_tokens(&bus.borrow());
                let rotations = (tok - tokens_at_conv) / live.len().max(1);
                if faulty && fault_phase == 0 && rotations >= 6 {
                    // inject: 1..4 telegram faults on upcoming transmissions, optional crash/restart
                    fault_phase = 1;
                    if lasttx {
                        if rng.gen_bool(0.2) {
                            let idx = bus.borrow().txs.len() + rng.gen_range(1..40);
                            let kind = [FaultKind::Truncate, FaultKind::Garble, FaultKind::Truncate][rng.gen_range(0..3)];
                            bus.borrow_mut().fault_at.insert(idx, Fault { kind, rcv: None });
                            crash_after_tx = Some(idx);
                        } else {
                            // wait for a GAP request to an empty address: the holder's next telegram (its token pass, one
                            // slot time later) is the one that gets damaged - nobody supervises a pass at that moment
                            lasttx_armed = Some(bus.borrow().txs.len() + rng.gen_range(1..40));
                        }
                        conv_at = None;
                        continue;
                    }
                    if vanish {
                        // the successor of a random station stops, and (half of the time, with >= 3 stations left)
                        // the next one in ring order as well - at the same moment or a little later
                        let mut order: Vec<usize> = (0..n).collect();
                        order.sort_by_key(|k| st[*k].addr);
                        let p0 = rng.gen_range(0..n);
                        let k = if n >= 4 && rng.gen_bool(0.5) { 2 } else { 1 };
                        let tc = t + rng.gen_range(1..200) * slot_us / 4;
                        for j in 1..=k.min(n - 1) {
                            let ci = order[(p0 + j) % n];
                            let tcj = tc + if j == 2 && rng.gen_bool(0.5) { rng.gen_range(1..40) * slot_us } else { 0 };
                            let tb = if rng.gen_bool(0.3) { Some(tcj + rng.gen_range(50..600) * slot_us) } else { None };
                            crashes.push((ci, tcj, tb, true));
                        }
                        conv_at = None;
                        continue;
                    }
                    let nf = rng.gen_range(1..=4usize);
                    let base = bus.borrow().txs.len();
                    for _ in 0..nf {
                        let idx = base + rng.gen_range(1..60);
                        let kind = [FaultKind::Drop, FaultKind::Garble, FaultKind::Truncate][rng.gen_range(0..3)];
                        let rcv = if rng.gen_bool(0.5) { None } else { Some(rng.gen_range(0..n)) };
                        bus.borrow_mut().fault_at.insert(idx, Fault { kind, rcv });
                    }
                    faults_left = bus.borrow().fault_at.len();
                    if rng.gen_bool(0.7) {
                        let ci = rng.gen_range(0..n);
                        let tc = t + rng.gen_range(1..400) * slot_us / 4;
                        let tb = if rng.gen_bool(0.6) { Some(tc + rng.gen_range(1..300) * slot_us) } else { None };
                        crashes.push((ci, tc, tb, true));
                    }
                    conv_at = None;
                } else if (!faulty || fault_phase == 2) && rotations >= want_rot {
                    break;
                }
            }
        }
        if faulty && fault_phase == 1 {
            let pending = bus.borrow().fault_at.len();
            if pending == 0 && crash_after_tx.is_none() && lasttx_armed.is_none() && crashes.is_empty() && !st.iter().any(|s| s.crashed && s.next < i64::MAX / 8) {
                let _ = faults_left;
                fault_phase = 2;
                faults_end_us = t;
                log.push(json!({"ev":"FaultsEnd","t":tt}));
                conv_at = None;
            }
        }
    }
    let tend = st.iter().map(|s| s.next).filter(|x| *x < i64::MAX / 8).min().unwrap_or(0) * TPU;
    let b = bus.borrow();
    log.push(json!({"ev":"End","t":tend,"polls":polls,"txs":b.txs.len(),"collisions":b.collisions,"log_records":log_records()}));
}

/// A lone station on a silent bus: when does it claim the token?  Deterministic sweep over
/// (baud rate, slot time, address) - the address-staggered silence time-out of C01.
fn claim_sweep(log: &mut EvLog, thorough: bool, seed: u64) {
    let mut rng = rand::rngs::StdRng::seed_from_u64(seed);
    let addrs: Vec<u8> = if thorough { (0..=125).collect() } else { vec![0, 1, 2, 15, 29, 30, 31, 51, 52, 53, 78, 79, 80, 106, 107, 108, 124, 125] };
    for &(baud, rate, minslot) in BAUDS.iter() {
        let mut slots: Vec<u16> = vec![minslot, minslot + 100, 1000, 4000];
        if thorough {
            slots.extend_from_slice(&[2000, 8000, 16383]);
        }
        slots.retain(|s| *s >= minslot);
        slots.dedup();
        for &slot in &slots {
            for &a in &addrs {
                let c = RingCfg { baud, rate, slot, hsa: 126, gap: 1, ttr: 126 * 5000, addrs: vec![a], periods: vec![1], joins: vec![0], napps: vec![0] };
                let tsl = bits(rate, slot as i64);
                let tto = (6 + 2 * a as i64) * tsl;
                if tto * 3 > 1_500_000_000 {
                    continue; // beyond the 32-bit tick budget of the trace checker
                }
                let slot_us = (slot as i64 * 1_000_000 / rate).max(1);
                let period = (slot_us / 4).max(1);
                let bus = Bus::new(rate);
                let cblog: CbLog = Rc::new(RefCell::new(vec![]));
                let mut st = Station { addr: a, fdl: mk_station(&c, 0), phy: VPhy::new(bus.clone(), 0), apps: vec![], period, next: 0, join_at: 0, online: false, crashed: false, polls: 0 };
                log.push(json!({
                    "ev":"Cfg","mode":"claim","seed":0,"stations":[a],"hsa":126,"gap":1,"baud":rate,"slot_bits":slot,
                    "tid":bits(rate,33),"tsdr":bits(rate,11),"tsl":tsl,"tto":[tto],"period":[period * TPU],"ttr":bits(rate, 126 * 5000),
                    "bconv": 3 * tto + 400 * tsl,"brec":0,"us":TPU,"napps":[0],"apps":false,"cycle":0,
                }));
                st.fdl.set_online();
                log.push(json!({"ev":"Online","st":a,"t":0}));
                let mut t: i64 = 0;
                let mut ntx = 0;
                while t * TPU < 2 * tto + 50 * tsl && ntx < 3 {
                    let before = bus.borrow().txs.len();
                    if let PollOutcome::Panicked = poll_station(&mut st, t, &bus, &cblog, log, false) {
                        break;
                    }
                    ntx += bus.borrow().txs.len() - before;
                    t += 1.max(period / 2 + rng.gen_range(0..=period / 2));
                }
                log.push(json!({"ev":"End","t":t * TPU,"polls":st.polls,"txs":ntx,"collisions":0,"log_records":0}));
                log.push(json!({"ev":"Reset"}));
            }
        }
    }
}

/// Two or three adjacent stations at the minimum slot time, polled with the maximal admissible period
/// (Tsl/4) without jitter; all relative poll phases are swept.  This is the premise edge of C01 /
/// C11: a supervised hand-over must complete before the supervisor's slot timer (Turnaround.tla).
fn phase_sweep(log: &mut EvLog, thorough: bool, seed: u64, nph: i64) {
    let mut rng = rand::rngs::StdRng::seed_from_u64(seed);
    let setups: Vec<(Baudrate, i64, u16, Vec<u8>)> = if thorough {
        vec![(Baudrate::B19200, 19200, 100, vec![1, 2]), (Baudrate::B500000, 500000, 200, vec![0, 1, 2]), (Baudrate::B93750, 93750, 100, vec![3, 4]), (Baudrate::B1500000, 1500000, 300, vec![0, 7])]
    } else {
        vec![(Baudrate::B19200, 19200, 100, vec![1, 2]), (Baudrate::B500000, 500000, 200, vec![0, 1, 2])]
    };
    let nphase: i64 = nph;
    for (baud, rate, slot, addrs) in setups {
        let n = addrs.len();
        let slot_us = slot as i64 * 1_000_000 / rate;
        let period = slot_us / 4;
        for ph in 0..nphase.pow((n - 1) as u32) {
            let mut phases = vec![0i64; n];
            let mut x = ph;
            for i in 1..n {
                phases[i] = (x % nphase) * period / nphase;
                x /= nphase;
            }
            let c = RingCfg { baud, rate, slot, hsa: addrs[n - 1] + 1, gap: 1, ttr: 30000, addrs: addrs.clone(), periods: vec![period; n], joins: vec![0; n], napps: vec![0; n] };
            let bus = Bus::new(rate);
            let cblog: CbLog = Rc::new(RefCell::new(vec![]));
            let mut st: Vec<Station> = (0..n)
                .map(|i| Station { addr: addrs[i], fdl: mk_station(&c, i), phy: VPhy::new(bus.clone(), i), apps: vec![], period, next: phases[i], join_at: 0, online: false, crashed: false, polls: 0 })
                .collect();
            let (bconv, brec) = bounds_ticks(&c);
            let tsl = bits(rate, slot as i64);
            log.push(json!({
                "ev":"Cfg","mode":"ff","seed":ph,"stations":addrs,"hsa":c.hsa,"gap":1,"baud":rate,"slot_bits":slot,
                "tid":bits(rate,33),"tsdr":bits(rate,11),"tsl":tsl,"tto":addrs.iter().map(|a| (6 + 2 * *a as i64) * tsl).collect::<Vec<_>>(),
                "period":vec![period * TPU; n],"ttr":bits(rate, 30000),"bconv":bconv,"brec":brec,"us":TPU,"napps":vec![0; n],"apps":false,"cycle":0,
                "phases":phases,
            }));
            for s in st.iter_mut() {
                s.fdl.set_online();
                s.online = true;
                log.push(json!({"ev":"Online","st":s.addr,"t":0}));
            }
            let mut tokens = 0usize;
            let mut conv_tokens: Option<usize> = None;
            loop {
                let (i, t) = st.iter().enumerate().map(|(i, s)| (i, s.next)).min_by_key(|x| x.1).unwrap();
                if t * TPU > bconv {
                    break;
                }
                if let PollOutcome::Panicked = poll_station(&mut st[i], t, &bus, &cblog, log, false) {
                    break;
                }
                // jittered poll distances in [period/2, period] (the premise allows any period up to Tsl/4)
                st[i].next = t + 1.max(period / 2 + rng.gen_range(0..=period / 2));
                let b = bus.borrow();
                tokens = b.txs.iter().filter(|x| x.bytes.first() == Some(&0xDC)).count();
                let live: Vec<u8> = addrs.clone();
                let ok = st.iter().all(|s| s.fdl.is_in_ring() && s.fdl.inspect_token_ring().iter_active_stations().collect::<Vec<u8>>() == live);
                if ok && conv_tokens.is_none() {
                    conv_tokens = Some(tokens);
                }
                if let Some(ct) = conv_tokens {
                    if tokens > ct + 40 * n || b.collisions > 0 {
                        break;
                    }
                }
            }
            let tend = st.iter().map(|s| s.next).min().unwrap() * TPU;
            log.push(json!({"ev":"End","t":tend,"polls":0,"txs":tokens,"collisions":bus.borrow().collisions,"log_records":0}));
            log.push(json!({"ev":"Reset"}));
        }
    }
}
