//! pbv — conformance harness binding the TLA+ specifications in /verif/spec to the real
//! profirust code (path dependency on /repo).  One sub-command per driver; every driver writes
//! an ndjson event log that TLC validates against a Trace*.tla specification.
mod codec;
mod diag;
mod gsd;
mod prm;
mod dp;
mod fuzz;
mod ring;
mod rx;
mod single;
mod sweep;
mod util;
mod vbus;
mod world;

fn main() {
    let mut it = std::env::args().skip(1);
    let cmd = it.next().unwrap_or_default();
    let args = util::Args::parse(it);
    util::install_panic_hook();
    util::install_logger();
    if let Some(h) = args.get("hangfile") {
        util::start_watchdog(args.num("hangsecs", 5), h.to_string());
    }
    match cmd.as_str() {
        "codec" => codec::run(&args),
        "ring" => ring::run(&args),
        "dp" => dp::run(&args),
        "rx" => rx::run(&args),
        "diag" => diag::run(&args),
        "prm" => prm::run(&args),
        "gsd" => gsd::run(&args),
        "sweep" => sweep::run(&args),
        "single" => single::run(&args),
        "fuzz" => fuzz::run(&args),
        _ => {
            eprintln!("usage: pbv <codec|...> --out FILE --seed N --tier quick|thorough");
            std::process::exit(2);
        }
    }
}
