//! `pbv gsd`: the GSD parser (C19).  (a) randomly generated abstract documents (sequences of
//! statements) are rendered to text with lexical variation and parsed; the projection of the result
//! is recorded next to the abstract document for validation against Gsd!Interp.  (b) grammar-aware
//! mutations of those texts and of the shipped mock.gsd, (c) random bytes: only totality.
use crate::util::*;
use gsd_parser::{GenericStationDescription, PrmValueConstraint, SupportedSpeeds, UserPrmData, UserPrmDataType};
use rand::{Rng, SeedableRng};
use serde_json::{json, Value};

fn limbs(v: i64) -> Value {
    let u = v as u64;
    json!([(u >> 48) & 0xffff, (u >> 32) & 0xffff, (u >> 16) & 0xffff, u & 0xffff])
}
const SPEED_KEYS: [&str; 11] = ["9.6", "19.2", "31.25", "45.45", "93.75", "187.5", "500", "1.5M", "3M", "6M", "12M"];

fn ty_json(t: UserPrmDataType) -> Value {
    match t {
        UserPrmDataType::Unsigned8 => json!({"k":"u8","a":0,"b":0}),
        UserPrmDataType::Unsigned16 => json!({"k":"u16","a":0,"b":0}),
        UserPrmDataType::Unsigned32 => json!({"k":"u32","a":0,"b":0}),
        UserPrmDataType::Signed8 => json!({"k":"s8","a":0,"b":0}),
        UserPrmDataType::Signed16 => json!({"k":"s16","a":0,"b":0}),
        UserPrmDataType::Signed32 => json!({"k":"s32","a":0,"b":0}),
        UserPrmDataType::Bit(b) => json!({"k":"bit","a":b,"b":b}),
        UserPrmDataType::BitArea(a, b) => json!({"k":"bitarea","a":a,"b":b}),
    }
}
fn cons_json(c: &PrmValueConstraint) -> Value {
    match c {
        PrmValueConstraint::MinMax(a, b) => json!({"k":"minmax","min":limbs(*a),"max":limbs(*b),"vals":[]}),
        PrmValueConstraint::Enum(v) => json!({"k":"enum","min":limbs(0),"max":limbs(0),"vals":v.iter().map(|x| limbs(*x)).collect::<Vec<_>>()}),
        PrmValueConstraint::Unconstrained => json!({"k":"none","min":limbs(0),"max":limbs(0),"vals":[]}),
    }
}
fn prm_json(p: &UserPrmData) -> Value {
    json!({
        "len": p.length,
        "consts": p.data_const.iter().map(|(o, d)| json!({"off":o,"data":d})).collect::<Vec<_>>(),
        "refs": p.data_ref.iter().map(|(o, r)| json!({"off":o,"def":{
            "name":r.name,"ty":ty_json(r.data_type),"default":limbs(r.default_value),"constraint":cons_json(&r.constraint),
            "hastexts":r.text_ref.is_some(),
            "texts":r.text_ref.as_ref().map(|m| m.iter().map(|(t, v)| json!({"t":t,"v":limbs(*v)})).collect::<Vec<_>>()).unwrap_or_default(),
            "changeable":r.changeable,"visible":r.visible}})).collect::<Vec<_>>(),
    })
}
/// projection of the parser's result (everything C19 names)
fn project(g: &GenericStationDescription) -> Value {
    let bits = [SupportedSpeeds::B9600, SupportedSpeeds::B19200, SupportedSpeeds::B31250, SupportedSpeeds::B45450, SupportedSpeeds::B93750, SupportedSpeeds::B187500, SupportedSpeeds::B500000, SupportedSpeeds::B1500000, SupportedSpeeds::B3000000, SupportedSpeeds::B6000000, SupportedSpeeds::B12000000];
    let t = &g.max_tsdr;
    json!({
        "rev":g.gsd_revision,"vendor":g.vendor,"model":g.model,"revision":g.revision,"revnum":g.revision_number,"ident":g.ident_number,"hw":g.hardware_release,"sw":g.software_release,
        "impl":g.implementation_type,"fail_safe":g.fail_safe,
        "speeds":bits.iter().map(|b| g.supported_speeds.contains(*b)).collect::<Vec<_>>(),
        "tsdr":[t.b9600,t.b19200,t.b31250,t.b45450,t.b93750,t.b187500,t.b500000,t.b1500000,t.b3000000,t.b6000000,t.b12000000],
        "modular":g.modular_station,"max_modules":g.max_modules,"max_diag":g.max_diag_data_length,
        "freeze":g.freeze_mode_supported,"sync":g.sync_mode_supported,"autobaud":g.auto_baud_supported,"setaddr":g.set_slave_addr_supported,
        "max_in":g.max_input_length,"max_out":g.max_output_length,"max_data":g.max_data_length,
        "station":prm_json(&g.user_prm_data),
        "modules":g.available_modules.iter().map(|m| json!({"name":m.name,"config":m.config,"reference":m.reference.map(|x| x as i64).unwrap_or(-1),
            "info":m.info_text.clone().unwrap_or_default(),"prm":prm_json(&m.module_prm_data)})).collect::<Vec<_>>(),
        "slots":g.slots.iter().map(|s| json!({"number":s.number,"name":s.name,"default":s.default.reference.map(|x| x as i64).unwrap_or(-1),
            "allowed":s.allowed_modules.iter().map(|m| m.reference.map(|x| x as i64).unwrap_or(-1)).collect::<Vec<_>>()})).collect::<Vec<_>>(),
        "diagbits":g.unit_diag.bits.iter().map(|(b, i)| json!({"bit":b,"text":i.text})).collect::<Vec<_>>(),
    })
}

// ------------------------------------------------------------------ lexical variation
struct Lex {
    kwcase: u8,
    eq: &'static str,
    nl: &'static str,
    comments: bool,
    hex: bool,
    preamble: bool,
    contin: bool,
    blank: bool,
}
fn kw(s: &str, l: &Lex) -> String {
    match l.kwcase {
        0 => s.to_string(),
        1 => s.to_uppercase(),
        _ => s.to_lowercase(),
    }
}
fn num(v: i64, l: &Lex, rng: &mut impl Rng) -> String {
    if l.hex && v >= 0 && rng.gen_bool(0.5) {
        format!("0x{:X}", v)
    } else {
        format!("{}", v)
    }
}
fn list(v: &[u8], l: &Lex, rng: &mut impl Rng) -> String {
    let mut s = String::new();
    for (i, b) in v.iter().enumerate() {
        if i > 0 {
            s.push(',');
            if l.contin && rng.gen_bool(0.3) {
                s.push('\\');
                s.push_str(l.nl);
                s.push_str("  ");
            }
        }
        s.push_str(&num(*b as i64, l, rng));
    }
    s
}
fn word(rng: &mut impl Rng) -> String {
    let n = rng.gen_range(1..10);
    (0..n).map(|_| b"abcXYZ 09_-./()=,;:#@"[rng.gen_range(0..21)] as char).collect::<String>().trim().to_string() + "x"
}

/// render one abstract statement; returns text lines
fn render_stmt(s: &Value, l: &Lex, rng: &mut impl Rng) -> Vec<String> {
    let mut o = vec![];
    let c = |s: String, rng: &mut dyn rand::RngCore| -> String { if l.comments && rng.gen_bool(0.3) { format!("{s} ; a comment = \"x\"") } else { s } };
    let n = |v: &Value| v.as_i64().unwrap();
    let val_of = |lv: &Value| -> i64 {
        let a: Vec<u64> = lv.as_array().unwrap().iter().map(|x| x.as_u64().unwrap()).collect();
        ((a[0] << 48) | (a[1] << 32) | (a[2] << 16) | a[3]) as i64
    };
    match s["s"].as_str().unwrap() {
        "set" => {
            let key = s["key"].as_str().unwrap();
            let shown = match key {
                "gsd_revision" => "GSD_Revision", "vendor_name" => "Vendor_Name", "model_name" => "Model_Name", "revision" => "Revision",
                "revision_number" => "Revision_Number", "ident_number" => "Ident_Number", "hardware_release" => "Hardware_Release",
                "software_release" => "Software_Release", "fail_safe" => "Fail_Safe", "implementation_type" => "Implementation_Type",
                "modular_station" => "Modular_Station", "max_module" => "Max_Module", "max_input_len" => "Max_Input_Len", "max_output_len" => "Max_Output_Len",
                "max_data_len" => "Max_Data_Len", "max_diag_data_len" => "Max_Diag_Data_Len", "freeze_mode_supp" => "Freeze_Mode_supp",
                "sync_mode_supp" => "Sync_Mode_supp", "auto_baud_supp" => "Auto_Baud_supp", "set_slave_add_supp" => "Set_Slave_Add_supp",
                other => other,
            };
            let v = &s["v"];
            let vs = if v.is_string() { format!("\"{}\"", v.as_str().unwrap()) } else if v.is_boolean() { num(v.as_bool().unwrap() as i64, l, rng) } else { num(n(v), l, rng) };
            o.push(c(format!("{}{}{}", kw(shown, l), l.eq, vs), rng));
        }
        "speed" => o.push(c(format!("{}{}{}", kw(&format!("{}_supp", SPEED_KEYS[n(&s["i"]) as usize - 1]), l), l.eq, num(s["v"].as_bool().unwrap() as i64, l, rng)), rng)),
        "tsdr" => o.push(format!("{}{}{}", kw(&format!("MaxTsdr_{}", SPEED_KEYS[n(&s["i"]) as usize - 1]), l), l.eq, num(n(&s["v"]), l, rng))),
        "prmtext" => {
            o.push(format!("{}{}{}", kw("PrmText", l), l.eq, n(&s["id"])));
            for tv in s["vals"].as_array().unwrap() {
                o.push(c(format!("{}({}){}\"{}\"", kw("Text", l), val_of(&tv["v"]), l.eq, tv["t"].as_str().unwrap()), rng));
            }
            o.push(kw("EndPrmText", l));
        }
        "extprm" => {
            o.push(format!("{}{}{} \"{}\"", kw("ExtUserPrmData", l), l.eq, n(&s["id"]), s["name"].as_str().unwrap()));
            let ty = &s["ty"];
            let tyname = match ty["k"].as_str().unwrap() {
                "u8" => "Unsigned8".to_string(), "u16" => "Unsigned16".into(), "u32" => "Unsigned32".into(),
                "s8" => "Signed8".into(), "s16" => "Signed16".into(), "s32" => "Signed32".into(),
                "bit" => format!("Bit({})", n(&ty["a"])),
                _ => format!("BitArea({}-{})", n(&ty["a"]), n(&ty["b"])),
            };
            let tyname = match l.kwcase { 1 => tyname.to_uppercase(), 2 => tyname.to_lowercase(), _ => tyname };
            let cons = &s["constraint"];
            let cs = match cons["k"].as_str().unwrap() {
                "minmax" => format!(" {}-{}", val_of(&cons["min"]), val_of(&cons["max"])),
                "enum" => format!(" {}", cons["vals"].as_array().unwrap().iter().map(|x| val_of(x).to_string()).collect::<Vec<_>>().join(",")),
                _ => String::new(),
            };
            o.push(c(format!("{} {}{}", tyname, val_of(&s["default"]), cs), rng));
            if n(&s["textref"]) >= 0 {
                o.push(format!("{}{}{}", kw("Prm_Text_Ref", l), l.eq, n(&s["textref"])));
            }
            if !s["changeable"].as_bool().unwrap() {
                o.push(format!("{}{}0", kw("Changeable", l), l.eq));
            }
            if !s["visible"].as_bool().unwrap() {
                o.push(format!("{}{}0", kw("Visible", l), l.eq));
            }
            o.push(kw("EndExtUserPrmData", l));
        }
        "prmref" => o.push(c(format!("{}({}){}{}", kw("Ext_User_Prm_Data_Ref", l), n(&s["off"]), l.eq, n(&s["id"])), rng)),
        "prmconst" => {
            let d: Vec<u8> = s["data"].as_array().unwrap().iter().map(|x| x.as_u64().unwrap() as u8).collect();
            o.push(format!("{}({}){}{}", kw("Ext_User_Prm_Data_Const", l), n(&s["off"]), l.eq, list(&d, l, rng)));
        }
        "maxuserprmlen" => o.push(format!("{}{}{}", kw("Max_User_Prm_Data_Len", l), l.eq, 200)),
        "userprmlen" => o.push(format!("{}{}{}", kw("User_Prm_Data_Len", l), l.eq, num(n(&s["n"]), l, rng))),
        "userprm" => {
            let d: Vec<u8> = s["data"].as_array().unwrap().iter().map(|x| x.as_u64().unwrap() as u8).collect();
            o.push(format!("{}{}{}", kw("User_Prm_Data", l), l.eq, list(&d, l, rng)));
        }
        "module" => {
            let cfg: Vec<u8> = s["config"].as_array().unwrap().iter().map(|x| x.as_u64().unwrap() as u8).collect();
            o.push(format!("{}{}\"{}\" {}", kw("Module", l), l.eq, s["name"].as_str().unwrap(), list(&cfg, l, rng)));
            if n(&s["reference"]) >= 0 {
                o.push(format!("{}", n(&s["reference"])));
            }
            if !s["info"].as_str().unwrap().is_empty() {
                o.push(format!("{}{}\"{}\"", kw("Info_Text", l), l.eq, s["info"].as_str().unwrap()));
            }
            o.push(format!("{}{}{}", kw("Ext_Module_Prm_Data_Len", l), l.eq, num(n(&s["len"]), l, rng)));
            for k in s["consts"].as_array().unwrap() {
                let d: Vec<u8> = k["data"].as_array().unwrap().iter().map(|x| x.as_u64().unwrap() as u8).collect();
                o.push(format!("{}({}){}{}", kw("Ext_User_Prm_Data_Const", l), n(&k["off"]), l.eq, list(&d, l, rng)));
            }
            for r in s["refs"].as_array().unwrap() {
                o.push(format!("{}({}){}{}", kw("Ext_User_Prm_Data_Ref", l), n(&r["off"]), l.eq, n(&r["id"])));
            }
            o.push(c(kw("EndModule", l), rng));
        }
        "slots" => {
            o.push(kw("SlotDefinition", l));
            for sl in s["list"].as_array().unwrap() {
                let allowed = if sl["range"].as_bool().unwrap() {
                    let a = sl["allowed_src"].as_array().unwrap();
                    format!("{}-{}", n(&a[0]), n(&a[1]))
                } else {
                    sl["allowed_src"].as_array().unwrap().iter().map(|x| n(x).to_string()).collect::<Vec<_>>().join(",")
                };
                o.push(format!("{}({}){}\"{}\" {} {}", kw("Slot", l), n(&sl["number"]), l.eq, sl["name"].as_str().unwrap(), n(&sl["default"]), allowed));
            }
            o.push(kw("EndSlotDefinition", l));
        }
        "diagbit" => o.push(format!("{}({}){}\"{}\"", kw("Unit_Diag_Bit", l), n(&s["bit"]), l.eq, s["text"].as_str().unwrap())),
        "unknown" => o.push(format!("{}{}{}", kw("Some_Unknown_Keyword", l), l.eq, num(5, l, rng))),
        _ => {}
    }
    if l.blank && rng.gen_bool(0.2) {
        o.push(String::new());
    }
    o
}

fn rand_type(rng: &mut impl Rng) -> (Value, i64, i64) {
    match rng.gen_range(0..8) {
        0 => (json!({"k":"u8","a":0,"b":0}), 0, 255),
        1 => (json!({"k":"u16","a":0,"b":0}), 0, 65535),
        2 => (json!({"k":"u32","a":0,"b":0}), 0, 4294967295),
        3 => (json!({"k":"s8","a":0,"b":0}), -128, 127),
        4 => (json!({"k":"s16","a":0,"b":0}), -32768, 32767),
        5 => (json!({"k":"s32","a":0,"b":0}), -2147483648, 2147483647),
        6 => {
            let b = rng.gen_range(0..8);
            (json!({"k":"bit","a":b,"b":b}), 0, 1)
        }
        _ => {
            let f = rng.gen_range(0..8);
            let l = rng.gen_range(f..8);
            (json!({"k":"bitarea","a":f,"b":l}), 0, (1i64 << (l - f + 1)) - 1)
        }
    }
}

/// a random well-formed abstract document: statements in an order that defines before use
fn gen_doc(rng: &mut impl Rng) -> Vec<Value> {
    let mut d: Vec<Value> = vec![];
    let mut scal: Vec<Value> = vec![
        json!({"s":"set","key":"gsd_revision","v":rng.gen_range(1..6)}),
        json!({"s":"set","key":"vendor_name","v":word(rng)}),
        json!({"s":"set","key":"model_name","v":word(rng)}),
        json!({"s":"set","key":"revision","v":word(rng)}),
        json!({"s":"set","key":"revision_number","v":rng.gen_range(0..200)}),
        json!({"s":"set","key":"ident_number","v":rng.gen_range(0..65536)}),
        json!({"s":"set","key":"hardware_release","v":word(rng)}),
        json!({"s":"set","key":"software_release","v":word(rng)}),
        json!({"s":"set","key":"implementation_type","v":word(rng)}),
        json!({"s":"set","key":"fail_safe","v":rng.gen_bool(0.5)}),
        json!({"s":"set","key":"freeze_mode_supp","v":rng.gen_bool(0.5)}),
        json!({"s":"set","key":"sync_mode_supp","v":rng.gen_bool(0.5)}),
        json!({"s":"set","key":"auto_baud_supp","v":rng.gen_bool(0.5)}),
        json!({"s":"set","key":"set_slave_add_supp","v":rng.gen_bool(0.5)}),
        json!({"s":"set","key":"max_input_len","v":rng.gen_range(0..245)}),
        json!({"s":"set","key":"max_output_len","v":rng.gen_range(0..245)}),
        json!({"s":"set","key":"max_data_len","v":rng.gen_range(0..489)}),
        json!({"s":"set","key":"max_diag_data_len","v":rng.gen_range(6..245)}),
        json!({"s":"unknown"}),
    ];
    for i in 1..=11 {
        if rng.gen_bool(0.7) {
            scal.push(json!({"s":"speed","i":i,"v":rng.gen_bool(0.7)}));
        }
        if rng.gen_bool(0.7) {
            scal.push(json!({"s":"tsdr","i":i,"v":rng.gen_range(11..1000)}));
        }
    }
    // a setting may be repeated: the later one wins
    if rng.gen_bool(0.2) {
        scal.push(json!({"s":"set","key":"vendor_name","v":word(rng)}));
    }
    for s in scal {
        if rng.gen_bool(0.85) {
            d.push(s);
        }
    }
    // shuffle scalars
    for i in (1..d.len()).rev() {
        let j = rng.gen_range(0..=i);
        d.swap(i, j);
    }
    // texts
    let ntext = rng.gen_range(0..3);
    let mut text_ids: Vec<i64> = vec![];
    for i in 0..ntext {
        let id = if rng.gen_bool(0.15) && i > 0 { 1 } else { i as i64 + 1 };
        let vals: Vec<Value> = (0..rng.gen_range(1..4)).map(|k| json!({"t": if rng.gen_bool(0.15) { "dup".to_string() } else { format!("T{}{}", k, word(rng)) },"v":limbs(rng.gen_range(-3..40))})).collect();
        d.push(json!({"s":"prmtext","id":id,"vals":vals}));
        if !text_ids.contains(&id) {
            text_ids.push(id);
        }
    }
    // definitions
    let ndef = rng.gen_range(0..5);
    let mut def_ids: Vec<i64> = vec![];
    for i in 0..ndef {
        let (ty, lo, hi) = rand_type(rng);
        let cons = match rng.gen_range(0..3) {
            1 => {
                let a = rng.gen_range(lo..=hi);
                let b = rng.gen_range(lo..=hi);
                json!({"k":"minmax","min":limbs(a.min(b)),"max":limbs(a.max(b)),"vals":[]})
            }
            2 => json!({"k":"enum","min":limbs(0),"max":limbs(0),"vals":(0..rng.gen_range(1..4)).map(|_| limbs(rng.gen_range(lo..=hi))).collect::<Vec<_>>()}),
            _ => json!({"k":"none","min":limbs(0),"max":limbs(0),"vals":[]}),
        };
        let id = if rng.gen_bool(0.1) && i > 0 { 1 } else { i as i64 + 1 };
        d.push(json!({"s":"extprm","id":id,"name":format!("P{} {}", i, word(rng)),"ty":ty,"default":limbs(rng.gen_range(lo..=hi)),"constraint":cons,
            "textref": if !text_ids.is_empty() && rng.gen_bool(0.4) { text_ids[rng.gen_range(0..text_ids.len())] } else { -1 },
            "changeable":rng.gen_bool(0.8),"visible":rng.gen_bool(0.8)}));
        if !def_ids.contains(&id) {
            def_ids.push(id);
        }
    }
    let mkrefs = |rng: &mut dyn rand::RngCore, ids: &Vec<i64>| -> Vec<Value> {
        if ids.is_empty() { vec![] } else { (0..rng.gen_range(0..3)).map(|_| json!({"off":rng.gen_range(0..6),"id":ids[rng.gen_range(0..ids.len())]})).collect() }
    };
    // station parameters: new style or legacy
    let legacy = rng.gen_bool(0.25);
    if legacy {
        let data: Vec<u8> = (0..rng.gen_range(1..6)).map(|_| rng.gen()).collect();
        if rng.gen_bool(0.5) {
            d.push(json!({"s":"userprmlen","n":data.len() + rng.gen_range(0..3)}));
            d.push(json!({"s":"userprm","data":data}));
        } else {
            d.push(json!({"s":"userprm","data":data.clone()}));
            d.push(json!({"s":"userprmlen","n":data.len() + rng.gen_range(0..3)}));
        }
    } else {
        if rng.gen_bool(0.6) {
            d.push(json!({"s":"maxuserprmlen"}));
        }
        for _ in 0..rng.gen_range(0..3) {
            d.push(json!({"s":"prmconst","off":rng.gen_range(0..4),"data":(0..rng.gen_range(1..6)).map(|_| rng.gen::<u8>()).collect::<Vec<_>>()}));
        }
        for r in mkrefs(rng, &def_ids) {
            d.push(json!({"s":"prmref","off":r["off"],"id":r["id"]}));
        }
        // legacy statements after new-style ones are ignored
        if rng.gen_bool(0.2) && d.iter().any(|s| matches!(s["s"].as_str(), Some("maxuserprmlen" | "prmconst" | "prmref"))) {
            d.push(json!({"s":"userprm","data":[1, 2, 3]}));
        }
    }
    // modules
    let nmod = rng.gen_range(1..4);
    let mut refs_used: Vec<i64> = vec![];
    for i in 0..nmod {
        let reference = if rng.gen_bool(0.9) { i as i64 + 1 } else { -1 };
        if reference >= 0 {
            refs_used.push(reference);
        }
        d.push(json!({"s":"module","name":format!("M{} {}", i, word(rng)),"config":(0..rng.gen_range(1..5)).map(|_| rng.gen::<u8>()).collect::<Vec<_>>(),
            "reference":reference,"info": if rng.gen_bool(0.3) { word(rng) } else { String::new() },"len":rng.gen_range(0..8),
            "consts": if rng.gen_bool(0.5) { vec![json!({"off":0,"data":(0..rng.gen_range(1..5)).map(|_| rng.gen::<u8>()).collect::<Vec<_>>()})] } else { vec![] },
            "refs": mkrefs(rng, &def_ids)}));
    }
    let modular = nmod > 1 || rng.gen_bool(0.3);
    if rng.gen_bool(0.9) {
        d.push(json!({"s":"set","key":"modular_station","v":modular}));
        if modular && rng.gen_bool(0.8) {
            d.push(json!({"s":"set","key":"max_module","v":rng.gen_range(1..20)}));
        }
    }
    if !refs_used.is_empty() && rng.gen_bool(0.6) {
        let mut list = vec![];
        for i in 0..rng.gen_range(1..3) {
            let dref = refs_used[rng.gen_range(0..refs_used.len())];
            let range = rng.gen_bool(0.4);
            // a range may also be degenerate ("2-2": exactly one module), S79
            let one = range && rng.gen_bool(0.35);
            let allowed_src: Vec<i64> = if one { vec![dref, dref] } else if range { vec![1, nmod as i64 + 1] } else { let mut v = vec![dref]; if rng.gen_bool(0.4) { v.push(77); } v };
            // what the file states: the modules of the range / set that exist, in range / listing order
            let allowed: Vec<i64> = if one { vec![dref] } else if range { (1..=nmod as i64 + 1).filter(|r| refs_used.contains(r)).collect() } else { allowed_src.iter().cloned().filter(|r| refs_used.contains(r)).collect() };
            list.push(json!({"number":i + 1,"name":format!("S{}", i),"default":dref,"range":range,"allowed_src":allowed_src,"allowed":allowed}));
        }
        d.push(json!({"s":"slots","list":list}));
    }
    for i in 0..rng.gen_range(0..3) {
        d.push(json!({"s":"diagbit","bit":if rng.gen_bool(0.2) { 0 } else { i },"text":format!("D{}{}", i, word(rng))}));
    }
    d
}

/// the abstract document in the vocabulary of Gsd.tla (slot lists flattened)
fn abstract_doc(d: &[Value]) -> Vec<Value> {
    let mut out = vec![];
    for s in d {
        match s["s"].as_str().unwrap() {
            "slots" => {
                for sl in s["list"].as_array().unwrap() {
                    out.push(json!({"s":"slot","number":sl["number"],"name":sl["name"],"default":sl["default"],"allowed":sl["allowed"]}));
                }
            }
            "unknown" => out.push(json!({"s":"set","key":"some_unknown_keyword","v":5})),
            _ => out.push(s.clone()),
        }
    }
    out
}

fn render(d: &[Value], l: &Lex, rng: &mut impl Rng) -> String {
    let mut o: Vec<String> = vec![];
    if l.preamble {
        o.push("; some preamble text".into());
        o.push("random words before the marker = 5".into());
    }
    o.push(kw("#Profibus_DP", l));
    for s in d {
        o.extend(render_stmt(s, l, rng));
    }
    o.join(l.nl) + l.nl
}

fn parse_guarded(src: &str) -> Result<Result<GenericStationDescription, String>, (String, String)> {
    beat();
    guarded(|| gsd_parser::parser::parse(std::path::Path::new("g.gsd"), src).map_err(|e| format!("{}", e).lines().last().unwrap_or("").to_string()))
}

const TOKS: [&str; 46] = ["\"abc\"", "5", "0x1F", "-3", "1.5", "Float32", "Unsigned8", "Bit(3)", "BitArea(2-5)", "BitArea(5-2)", "Bit(9)", "1,2,3", "0-300", "(", ")", "=", "\n", "\\\n", ";x", "EndModule", "Module", "EndExtUserPrmData", "ExtUserPrmData", "Prm_Text_Ref", "Ext_User_Prm_Data_Ref", "Ext_User_Prm_Data_Ref(0)", "Ext_Module_Prm_Data_Len", "4294967296", "99999999999999999999", "Slot(1)", "SlotDefinition", "EndSlotDefinition", "PrmText", "EndPrmText", "Text(1)", "Unit_Diag_Bit", "Unit_Diag_Bit(3)", "Unit_Diag_Area", "Value(1)", "Unit_Diag_Area_End", "User_Prm_Data", "User_Prm_Data_Len", "Max_Module", "Modular_Station", "@", "0@x"];

fn mutate(base: &str, rng: &mut impl Rng) -> String {
    let mut ls: Vec<String> = base.lines().map(|s| s.to_string()).collect();
    if ls.is_empty() {
        return String::new();
    }
    for _ in 0..rng.gen_range(1..4) {
        let i = rng.gen_range(0..ls.len());
        match rng.gen_range(0..6) {
            0 => {
                if let Some(p) = ls[i].find('=') {
                    let t = TOKS[rng.gen_range(0..TOKS.len())];
                    ls[i] = format!("{}={}", &ls[i][..p], t);
                }
            }
            1 => {
                ls.remove(i);
                if ls.is_empty() {
                    break;
                }
            }
            2 => {
                let j = rng.gen_range(0..ls.len());
                let l = ls[j].clone();
                ls.insert(i, l);
            }
            3 => {
                let t = TOKS[rng.gen_range(0..TOKS.len())];
                let mut ws: Vec<String> = ls[i].split(' ').map(|s| s.to_string()).collect();
                let w = rng.gen_range(0..ws.len());
                ws[w] = t.to_string();
                ls[i] = ws.join(" ");
            }
            4 => {
                // numeric extremes / removed parentheses
                ls[i] = ls[i].replace('(', "").replace(')', "");
            }
            _ => {
                let t = TOKS[rng.gen_range(0..TOKS.len())];
                let t2 = TOKS[rng.gen_range(0..TOKS.len())];
                ls.insert(i, format!("{} = {}", t, t2));
            }
        }
    }
    ls.join(if rng.gen_bool(0.5) { "\n" } else { "\r\n" })
}

pub fn run(args: &Args) {
    let out = args.str("out", "/dev/stdout");
    let seed: u64 = args.num("seed", 1);
    let ndocs: usize = args.num("runs", 200);
    let nfuzz: usize = args.num("fuzz", 2000);
    let mut log = EvLog::create(&out);
    let mut rng = rand::rngs::StdRng::seed_from_u64(seed);
    let mock = std::fs::read_to_string("/repo/gsd-parser/tests/data/mock.gsd").unwrap_or_default();
    let mut texts: Vec<String> = vec![mock];
    for _ in 0..ndocs {
        let d = gen_doc(&mut rng);
        let lex = Lex {
            kwcase: rng.gen_range(0..3),
            eq: ["=", " = ", "\t=  ", "= "][rng.gen_range(0..4)],
            nl: if rng.gen_bool(0.5) { "\n" } else { "\r\n" },
            comments: rng.gen_bool(0.5),
            hex: rng.gen_bool(0.5),
            preamble: rng.gen_bool(0.3),
            contin: rng.gen_bool(0.4),
            blank: rng.gen_bool(0.5),
        };
        let src = render(&d, &lex, &mut rng);
        let doc = abstract_doc(&d);
        match parse_guarded(&src) {
            Err((msg, loc)) => log.push(json!({"ev":"Panic","msg":msg.chars().take(80).collect::<String>(),"loc":short_loc(&loc),"during":"parse","src":src})),
            Ok(Err(e)) => log.push(json!({"ev":"Gsd","doc":doc,"ok":false,"proj":{},"err":e,"src":src})),
            Ok(Ok(g)) => log.push(json!({"ev":"Gsd","doc":doc,"ok":true,"proj":project(&g)})),
        }
        if texts.len() < 40 {
            texts.push(src);
        }
    }
    // grammar-aware mutation and random bytes: totality only
    for i in 0..nfuzz {
        let src = if i % 10 == 9 {
            let n = rng.gen_range(0..400);
            let bytes: Vec<u8> = (0..n).map(|_| if rng.gen_bool(0.7) { { let al = b"#Profibus_DP\n=\"(),;-0123456789abcxyzMEPTS \\\r\n"; al[rng.gen_range(0..al.len())] } } else { rng.gen() }).collect();
            String::from_utf8_lossy(&bytes).to_string()
        } else {
            mutate(&texts[rng.gen_range(0..texts.len())], &mut rng)
        };
        match parse_guarded(&src) {
            Err((msg, loc)) => log.push(json!({"ev":"Panic","msg":msg.chars().take(80).collect::<String>(),"loc":short_loc(&loc),"during":"fuzz","src":src})),
            Ok(r) => log.push(json!({"ev":"Fuzz","ok":r.is_ok()})),
        }
    }
    log.flush();
    eprintln!("gsd: {} events", log.count);
}
