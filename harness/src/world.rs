//! Shared pieces of the multi-station drivers: a station (real FdlActiveStation + VPhy +
//! applications), the public view, and one logged `poll()`.
use crate::util::*;
use crate::vbus::*;
use profirust::fdl;
use profirust::time::Instant;
use rand::Rng;
use serde_json::{json, Value};
use std::cell::RefCell;
use std::rc::Rc;

pub type CbLog = Rc<RefCell<Vec<Value>>>;

/// Public view of a station (no hooks: `is_in_ring`, `inspect_token_ring`).
pub fn view(f: &fdl::FdlActiveStation) -> Value {
    let tr = f.inspect_token_ring();
    json!({
        "in_ring": f.is_in_ring(),
        "ready": tr.ready_for_ring(),
        "las": tr.iter_active_stations().collect::<Vec<u8>>(),
        "ns": tr.next_station(),
        "ps": tr.previous_station(),
    })
}

/// What an application does when asked for a telegram.
#[derive(Clone, Debug)]
pub enum Want {
    /// FDL status request to an address (reply expected)
    Status(u8),
    /// SDN broadcast without reply
    Sdn,
    /// SRD data request with payload length (reply expected) to an address
    Srd(u8, usize),
}

/// Traffic application with a configurable appetite; logs every call-back.
pub struct TrafficApp {
    pub appetite: u8, // 0 never, 1 sometimes, 2 always (up to `budget` per turn)
    pub wants: Vec<Want>,
    pub log: CbLog,
    pub me: u8,
    pub id: usize,
    pub rng: rand::rngs::StdRng,
    pub sent_this: u32,
    pub budget: u32,
    pub nreq: u64,
    /// true: the application has only low-priority traffic (declines when asked for high priority only)
    pub low_only: bool,
}

impl fdl::FdlApplication for TrafficApp {
    fn transmit_telegram(&mut self, now: Instant, f: &fdl::FdlActiveStation, tx: fdl::TelegramTx, hp: fdl::HighPrioOnly) -> Option<fdl::TelegramTxResponse> {
        let want = match self.appetite {
            0 => false,
            1 => self.rng.gen_bool(0.5) && self.sent_this < self.budget,
            _ => self.sent_this < self.budget,
        };
        let t = now.total_micros() * TPU;
        let hpj = hp == fdl::HighPrioOnly::Yes;
        let want = want && !(hpj && self.low_only);
        if !want {
            self.sent_this = 0;
            self.log.borrow_mut().push(json!({"ev":"Cb","st":self.me,"app":self.id,"k":"transmit","t":t,"sent":false,"hp":hpj}));
            return None;
        }
        self.sent_this += 1;
        self.nreq += 1;
        let w = self.wants[self.rng.gen_range(0..self.wants.len())].clone();
        let sa = f.parameters().address;
        let (res, da, reply) = match w {
            Want::Status(a) => (tx.send_fdl_status_request(a, sa), a, true),
            Want::Sdn => (
                tx.send_data_telegram(
                    fdl::DataTelegramHeader { da: 127, sa, dsap: Some(58), ssap: Some(62), fc: fdl::FunctionCode::Request { fcb: fdl::FrameCountBit::Inactive, req: if self.rng.gen_bool(0.5) { fdl::RequestType::SdnLow } else { fdl::RequestType::SdnHigh } } },
                    2,
                    |b| b.copy_from_slice(&[0, 0]),
                ),
                127,
                false,
            ),
            Want::Srd(a, n) => (
                tx.send_data_telegram(
                    fdl::DataTelegramHeader { da: a, sa, dsap: None, ssap: None, fc: fdl::FunctionCode::Request { fcb: fdl::FrameCountBit::First, req: fdl::RequestType::SrdHigh } },
                    n,
                    |b| b.iter_mut().enumerate().for_each(|(i, x)| *x = i as u8),
                ),
                a,
                true,
            ),
        };
        self.log.borrow_mut().push(json!({"ev":"Cb","st":self.me,"app":self.id,"k":"transmit","t":t,"sent":true,"hp":hpj,"da":da,"reply":reply}));
        Some(res)
    }
    fn receive_reply(&mut self, now: Instant, _f: &fdl::FdlActiveStation, addr: u8, t: fdl::Telegram) {
        let (kind, sa, da, resp) = match &t {
            fdl::Telegram::Token(x) => ("token", x.sa as i32, x.da as i32, false),
            fdl::Telegram::ShortConfirmation(_) => ("sc", -1, -1, true),
            fdl::Telegram::Data(d) => ("data", d.h.sa as i32, d.h.da as i32, matches!(d.h.fc, fdl::FunctionCode::Response { .. })),
        };
        self.log.borrow_mut().push(json!({"ev":"Cb","st":self.me,"app":self.id,"k":"reply","t":now.total_micros()*TPU,"addr":addr,"tk":kind,"sa":sa,"da":da,"resp":resp}));
    }
    fn handle_timeout(&mut self, now: Instant, _f: &fdl::FdlActiveStation, addr: u8) {
        self.log.borrow_mut().push(json!({"ev":"Cb","st":self.me,"app":self.id,"k":"timeout","t":now.total_micros()*TPU,"addr":addr}));
    }
}

pub struct Station {
    pub addr: u8,
    pub fdl: fdl::FdlActiveStation,
    pub phy: VPhy,
    pub apps: Vec<TrafficApp>,
    /// poll period in us and next poll time in us
    pub period: i64,
    pub next: i64,
    pub join_at: i64,
    pub online: bool,
    pub crashed: bool,
    pub polls: u64,
}

pub enum PollOutcome {
    Quiet,
    Logged,
    Panicked,
}

/// One `poll()`/`poll_multi()` of a station at time `t_us`, with the events it produced appended
/// to `log` (Poll, then Cb*, then Tx*).  Returns whether anything was logged.
pub fn poll_station(s: &mut Station, t_us: i64, bus: &Rc<RefCell<Bus>>, cblog: &CbLog, log: &mut EvLog, force: bool) -> PollOutcome {
    let pre = view(&s.fdl);
    let ntx0 = bus.borrow().txs.len();
    let ncoll0 = bus.borrow().collisions;
    let nfl0 = bus.borrow().applied_faults.len();
    let now = Instant::from_micros(t_us);
    beat();
    let r = {
        let fdl_ = &mut s.fdl;
        let phy = &mut s.phy;
        let apps = &mut s.apps;
        guarded(|| {
            if apps.is_empty() {
                fdl_.poll(now, phy, &mut ());
            } else {
                let mut refs: Vec<&mut dyn fdl::FdlApplication> = apps.iter_mut().map(|a| a as &mut dyn fdl::FdlApplication).collect();
                fdl_.poll_multi(now, phy, &mut refs[..]);
            }
        })
    };
    s.polls += 1;
    let t = t_us * TPU;
    if let Err((msg, loc)) = r {
        log.push(json!({"ev":"Poll","st":s.addr,"t":t,"pre":pre,"post":pre}));
        for c in cblog.borrow_mut().drain(..) {
            log.push(c);
        }
        log.push(json!({"ev":"Panic","st":s.addr,"t":t,"msg":msg,"loc":short_loc(&loc),"during":"poll"}));
        return PollOutcome::Panicked;
    }
    let post = view(&s.fdl);
    let b = bus.borrow();
    let ntx1 = b.txs.len();
    let ncb = cblog.borrow().len();
    if !force && post == pre && ntx1 == ntx0 && ncb == 0 {
        return PollOutcome::Quiet;
    }
    log.push(json!({"ev":"Poll","st":s.addr,"t":t,"pre":pre,"post":post}));
    for c in cblog.borrow_mut().drain(..) {
        log.push(c);
    }
    for k in ntx0..ntx1 {
        let x = &b.txs[k];
        log.push(json!({"ev":"Tx","st":s.addr,"t0":x.start,"t1":x.end(),"b":x.bytes}));
    }
    for k in nfl0..b.applied_faults.len() {
        let (idx, f) = &b.applied_faults[k];
        log.push(json!({"ev":"Fault","t":t,"idx":idx,"kind":format!("{:?}", f.kind),"rcv":f.rcv.map(|x| x as i32).unwrap_or(-1)}));
    }
    if b.collisions != ncoll0 {
        log.push(json!({"ev":"Collision","t":t,"st":s.addr}));
    }
    PollOutcome::Logged
}
