//! `pbv sweep`: LiveList and DpScanner on a real FdlActiveStation against a population of
//! responders that appears and disappears (C18).  The application is wrapped so that every
//! call-back is logged; events are collected after every poll.
use crate::dp::enc_data;
use crate::util::*;
use crate::vbus::*;
use profirust::fdl::{self, FdlApplication};
use profirust::time::Instant;
use profirust::{dp, Baudrate};
use rand::{Rng, SeedableRng};
use serde_json::{json, Value};
use std::cell::RefCell;
use std::rc::Rc;

struct Wrap<A: FdlApplication> {
    inner: A,
    log: Rc<RefCell<Vec<Value>>>,
}
impl<A: FdlApplication> FdlApplication for Wrap<A> {
    fn transmit_telegram(&mut self, now: Instant, f: &fdl::FdlActiveStation, tx: fdl::TelegramTx, hp: fdl::HighPrioOnly) -> Option<fdl::TelegramTxResponse> {
        let r = self.inner.transmit_telegram(now, f, tx, hp);
        self.log.borrow_mut().push(json!({"k":"transmit","sent":r.is_some()}));
        r
    }
    fn receive_reply(&mut self, now: Instant, f: &fdl::FdlActiveStation, addr: u8, t: fdl::Telegram) {
        self.log.borrow_mut().push(json!({"k":"reply","addr":addr}));
        self.inner.receive_reply(now, f, addr, t)
    }
    fn handle_timeout(&mut self, now: Instant, f: &fdl::FdlActiveStation, addr: u8) {
        self.log.borrow_mut().push(json!({"k":"timeout","addr":addr}));
        self.inner.handle_timeout(now, f, addr)
    }
}

#[derive(Clone)]
struct Responder {
    present: bool,
    /// for the scanner: answers diagnostics with this ident (None: answers with something that is not a diagnostics reply)
    ident: Option<u16>,
    state: u8,
}

fn one_run(log: &mut EvLog, seed: u64, scanner: bool, thorough: bool) {
    let mut rng = rand::rngs::StdRng::seed_from_u64(seed);
    let (baud, rate, slot) = [(Baudrate::B12000000, 12_000_000i64, 1000u16), (Baudrate::B1500000, 1_500_000, 300), (Baudrate::B500000, 500_000, 200)][rng.gen_range(0..3)];
    let ts: u8 = match rng.gen_range(0..4) {
        0 => 0,
        1 => 125,
        _ => rng.gen_range(0..=125),
    };
    let hsa = if ts == 125 { 126 } else { ts + 1 + rng.gen_range(0..2) };
    let mut pb = fdl::ParametersBuilder::new(ts, baud);
    pb.highest_station_address(hsa).slot_bits(slot).gap_wait_rotations(100).token_rotation_bits(16_000_000);
    let mut f = fdl::FdlActiveStation::new(pb.build());
    let bus = Bus::new(rate);
    let mut phy = VPhy::new(bus.clone(), 0);
    let cbs: Rc<RefCell<Vec<Value>>> = Rc::new(RefCell::new(vec![]));
    let mut ll = Wrap { inner: fdl::live_list::LiveList::new(), log: cbs.clone() };
    let mut sc = Wrap { inner: dp::scan::DpScanner::new(), log: cbs.clone() };
    let bits = |n: i64| n * 12_000_000 / rate;
    let slot_us = (slot as i64 * 1_000_000 / rate).max(1);
    let period = (slot_us / 8).max(1);
    let mut pop: Vec<Responder> = (0..126).map(|_| Responder { present: false, ident: None, state: 0 }).collect();
    log.push(json!({"ev":"Cfg","mode":"sweep","kind": if scanner {"scanner"} else {"livelist"},"seed":seed,"ts":ts,"hsa":hsa,"baud":rate,"tsl":bits(slot as i64),"us":TPU}));
    log.flush();
    f.set_online();
    let phases = if thorough { 8 } else { 5 };
    let loss_p = [0.0, 0.0, 0.02, 0.1][rng.gen_range(0..4)];
    let mut now: i64 = 0;
    let mut seen_tx = 0usize;
    let mut pending: Option<(i64, Vec<u8>, u8)> = None;
    let mut last_list: Vec<u8> = vec![];
    for phase in 0..phases {
        // ---- change the population
        let nchg = if phase == 0 { rng.gen_range(0..12) } else { rng.gen_range(1..6) };
        // every change is a real appearance or disappearance: an address changes at most once per phase (a responder
        // that vanished and came back as something else without ever being absent is not an observable history)
        let mut changed: Vec<usize> = vec![];
        for _ in 0..nchg {
            let a = match rng.gen_range(0..7) {
                0 => 0,
                1 => 125,
                2 => ts, // a responder at the scanner's own address can never be seen
                3 => ((ts as u16 + 1) % 126) as u8, // the neighbours of the own address (S78)
                4 => ((ts as u16 + 125) % 126) as u8,
                _ => rng.gen_range(0..=125usize) as u8,
            } as usize;
            if changed.contains(&a) {
                continue;
            }
            changed.push(a);
            pop[a].present = !pop[a].present;
            pop[a].ident = if rng.gen_bool(0.85) { Some(rng.gen()) } else { None };
            pop[a].state = rng.gen_range(0..4);
        }
        let lossy = phase % 2 == 1 && loss_p > 0.0;
        log.push(json!({"ev":"Responders","t":now * TPU,"lossy":lossy,
            "set": (0..126).filter(|a| pop[*a].present).collect::<Vec<_>>(),
            "dp": (0..126).filter(|a| pop[*a].present && pop[*a].ident.is_some()).map(|a| json!([a, pop[a].ident.unwrap()])).collect::<Vec<_>>()}));
        // ---- run for a bit more than two (three when lossy) full sweeps of application probes
        let mut probes = 0;
        let want = 126 * if lossy { 3 } else { 2 } + 20;
        let mut guard = 0u64;
        while probes < want && guard < 3_000_000 {
            guard += 1;
            now += 1.max(period / 2 + rng.gen_range(0..=period / 2));
            let tt = now * TPU;
            if let Some((t, _, _)) = &pending {
                if *t <= tt {
                    let (t, b, a) = pending.take().unwrap();
                    let end = bus.borrow_mut().transmit(t, 1000 + a as usize, b.clone(), true);
                    seen_tx = bus.borrow().txs.len().max(seen_tx);
                    log.push(json!({"ev":"Tx","st":a,"env":true,"t0":t,"t1":end,"b":b}));
                }
            }
            beat();
            let r = {
                let fdl_ = &mut f;
                let p = &mut phy;
                if scanner {
                    let app = &mut sc;
                    guarded(|| {
                        fdl_.poll(Instant::from_micros(now), p, app);
                        app.inner.take_last_event().map(|e| match e {
                            dp::scan::DpScanEvent::PeripheralFound(d) => json!({"k":"Found","addr":d.address,"ident":d.ident}),
                            dp::scan::DpScanEvent::PeripheralRequery(d) => json!({"k":"Requery","addr":d.address,"ident":d.ident}),
                            dp::scan::DpScanEvent::PeripheralLost(a) => json!({"k":"Lost","addr":a,"ident":-1}),
                        })
                    })
                } else {
                    let app = &mut ll;
                    guarded(|| {
                        fdl_.poll(Instant::from_micros(now), p, app);
                        app.inner.take_last_event().map(|e| match e {
                            fdl::live_list::StationEvent::Discovered(d) => json!({"k":"Found","addr":d.address,"ident":-1}),
                            fdl::live_list::StationEvent::Lost(a) => json!({"k":"Lost","addr":a,"ident":-1}),
                        })
                    })
                }
            };
            let ev = match r {
                Err((msg, loc)) => {
                    log.push(json!({"ev":"Panic","msg":msg,"loc":short_loc(&loc),"during":"poll","t":tt}));
                    return;
                }
                Ok(ev) => ev,
            };
            let calls: Vec<Value> = cbs.borrow_mut().drain(..).collect();
            let app_sent = calls.iter().any(|c| c["k"] == "transmit" && c["sent"] == true);
            for c in calls.iter() {
                if c["k"] != "transmit" || c["sent"] == true {
                    log.push(json!({"ev":"Cb","t":tt,"k":c["k"],"addr":c.get("addr").cloned().unwrap_or(json!(-1))}));
                }
            }
            // station transmissions of this poll
            let ntx = bus.borrow().txs.len();
            while seen_tx < ntx {
                let (sender, bytes, start, end) = {
                    let b = bus.borrow();
                    let t = &b.txs[seen_tx];
                    (t.sender, t.bytes.clone(), t.start, t.end())
                };
                seen_tx += 1;
                if sender != 0 {
                    continue;
                }
                log.push(json!({"ev":"Tx","st":ts,"t0":start,"t1":end,"b":bytes,"app":app_sent}));
                if app_sent {
                    probes += 1;
                }
                // responders
                if let Some(r) = crate::dp::dec_req(&bytes) {
                    let a = r.da as usize;
                    if a < 126 && pop[a].present && r.da != ts {
                        if lossy && rng.gen_bool(loss_p) {
                            log.push(json!({"ev":"Env","k":"LoseReply","addr":a,"t":end}));
                            continue;
                        }
                        let reply = if r.reqtype == 9 {
                            Some(enc_data(r.sa, r.da, None, None, pop[a].state << 4, &[]))
                        } else if r.dsap == Some(60) && lossy && pop[a].ident.is_some() && rng.gen_bool(0.08) {
                            // a DP peripheral that answers this one request with something that is no usable
                            // diagnostics reply (short confirmation / diagnostics PDU shorter than 6 bytes)
                            log.push(json!({"ev":"Env","k":"BadReply","addr":a,"t":end}));
                            if rng.gen_bool(0.5) { Some(vec![0xE5]) } else { Some(enc_data(r.sa, r.da, Some(62), Some(60), 0x08, &[0x02, 0x05, 0x00])) }
                        } else if r.dsap == Some(60) {
                            match pop[a].ident {
                                Some(id) => Some(enc_data(r.sa, r.da, Some(62), Some(60), 0x08, &[0x02, 0x05, 0x00, 0xFF, (id >> 8) as u8, id as u8])),
                                None => Some(enc_data(r.sa, r.da, None, None, 0x03, &[])), // "service not activated": not a DP peripheral
                            }
                        } else {
                            None
                        };
                        if let Some(b) = reply {
                            pending = Some((end + bits(rng.gen_range(11..60)), b, r.da));
                        }
                    }
                }
            }
            if let Some(e) = ev {
                log.push(json!({"ev":"Ev","t":tt,"k":e["k"],"addr":e["addr"],"ident":e["ident"]}));
            }
            if !scanner {
                let cur: Vec<u8> = ll.inner.iter_stations().collect();
                if cur != last_list {
                    log.push(json!({"ev":"List","t":tt,"stations":cur}));
                    last_list = cur;
                }
            }
        }
        log.push(json!({"ev":"Stable","t":now * TPU,"probes":probes,"lossy":lossy}));
    }
    log.push(json!({"ev":"End","t":now * TPU}));
}

pub fn run(args: &Args) {
    let out = args.str("out", "/dev/stdout");
    let seed0: u64 = args.num("seed", 1);
    let runs: u64 = args.num("runs", 2);
    let thorough = args.str("tier", "quick") == "thorough";
    let mut log = EvLog::create(&out);
    for r in 0..runs {
        let seed = seed0.wrapping_mul(1_000_003).wrapping_add(r);
        one_run(&mut log, seed, r % 2 == 1, thorough);
        log.push(json!({"ev":"Reset"}));
    }
    log.flush();
    eprintln!("sweep: {} events", log.count);
}
