//! `pbv fuzz`: byte-level fuzzing of `poll()` / `poll_multi()` (C05).
//!
//! One real FdlActiveStation on a buffer PHY with one of the application sets
//!   none | DpMaster with 0..3 peripherals | LiveList | DpScanner | DpMaster + LiveList (poll_multi)
//! against an environment that is half reactive, half hostile:
//!  * grammar: tokens from/to arbitrary addresses (incl. > 125, the own address, the broadcast
//!    address), FDL status requests and replies of every station type, short confirmations, data
//!    replies with arbitrary SAPs / response status / length (diagnosis-shaped bodies included),
//!    requests addressed to the station;
//!  * reactive: answers to what the station just transmitted (token handed back, status reply,
//!    data reply from the addressed station) so that the deep states are reached;
//!  * mutational: bit flips, truncation, duplication, splicing, wrong check sum / delimiters of
//!    the above and of the station's own transmissions;
//!  * noise: random bytes;
//! delivered in random chunks at random poll times (from sub-bit-time steps to several token
//! time-outs).  Only a panic or a hang of the code under test matters; the log carries the
//! configuration, the set of FDL states visited, counters, and `Panic` / `Hang` events.
use crate::dp::enc_data;
use crate::util::*;
use crate::vbus::*;
use profirust::time::Instant;
use profirust::{dp, fdl, Baudrate};
use rand::{Rng, SeedableRng};
use serde_json::json;
use std::collections::BTreeSet;

type R = rand::rngs::StdRng;

fn any_addr(rng: &mut R, ts: u8, others: &[u8]) -> u8 {
    match rng.gen_range(0..10) {
        0 => ts,
        1 => 126,
        2 => 127,
        3 => rng.gen_range(128..=255),
        4 | 5 | 6 if !others.is_empty() => others[rng.gen_range(0..others.len())],
        7 => ts.wrapping_add(1) & 0x7f,
        8 => ts.wrapping_sub(1) & 0x7f,
        _ => rng.gen_range(0..=125),
    }
}

fn diag_body(rng: &mut R, master: u8) -> Vec<u8> {
    let mut v = vec![rng.gen::<u8>() & [0xff, 0x02, 0x00, 0x4a][rng.gen_range(0..4)], rng.gen::<u8>() & [0xff, 0x05, 0x04, 0x0c][rng.gen_range(0..4)], rng.gen::<u8>() & 0x80,
                     [255u8, master, rng.gen()][rng.gen_range(0..3)], rng.gen(), rng.gen()];
    let n = [0usize, 0, 1, 2, 5, 12, 60, 238][rng.gen_range(0..8)];
    for k in 0..n {
        // block headers of all kinds incl. length 0 / over-long
        v.push(if k == 0 || rng.gen_bool(0.3) { [0x00u8, 0x01, 0x02, 0x05, 0x40, 0x41, 0x44, 0x80, 0x83, 0xc0, 0x3f, 0x7f][rng.gen_range(0..12)] } else { rng.gen() });
    }
    v
}

/// a telegram the bus could carry, addressed (mostly) to `ts`
fn grammar(rng: &mut R, ts: u8, others: &[u8], nin: &[usize]) -> Vec<u8> {
    let from = any_addr(rng, ts, others);
    let to = if rng.gen_bool(0.7) { ts } else { any_addr(rng, ts, others) };
    match rng.gen_range(0..12) {
        0 | 1 => vec![0xDC, to, from],
        2 => vec![0xE5],
        3 => enc_data(to & 0x7f, from & 0x7f, None, None, 0x49, &[]), // FDL status request
        4 => enc_data(to & 0x7f, from & 0x7f, None, None, [0x00u8, 0x10, 0x20, 0x30, 0x03, 0x02][rng.gen_range(0..6)], &[]), // status replies
        5 => {
            // data reply shaped like a Data_Exchange answer
            let n = if !nin.is_empty() && rng.gen_bool(0.7) { let k = nin[rng.gen_range(0..nin.len())]; [k, k + 1, k.saturating_sub(1)][rng.gen_range(0..3)] } else { [0usize, 1, 8, 32, 244, 246][rng.gen_range(0..6)] };
            let pdu: Vec<u8> = (0..n).map(|_| rng.gen()).collect();
            let st = [0x08u8, 0x0A, 0x00, 0x03, 0x02, 0x01, 0x09, 0x0C, 0x0D, 0x48, 0x7D][rng.gen_range(0..11)];
            enc_data(to & 0x7f, from & 0x7f, None, None, st, &pdu)
        }
        6 | 7 => {
            // diagnosis-shaped reply
            let body = diag_body(rng, ts);
            let (d, s) = [(Some(62u8), Some(60u8)), (Some(62), Some(60)), (Some(60), Some(62)), (None, Some(60)), (Some(62), None), (Some(rng.gen::<u8>() & 0x3f), Some(rng.gen::<u8>() & 0x3f))][rng.gen_range(0..6)];
            enc_data(to & 0x7f, from & 0x7f, d, s, [0x08u8, 0x0A, 0x03, 0x00][rng.gen_range(0..4)], &body[..body.len().min(if rng.gen_bool(0.1) { rng.gen_range(0..7) } else { 244 })])
        }
        8 => {
            // a request to the station (it is a master: it has no responder role except FDL status)
            let pdu: Vec<u8> = (0..rng.gen_range(0..12)).map(|_| rng.gen()).collect();
            let d = if rng.gen_bool(0.5) { Some(rng.gen::<u8>() & 0x3f) } else { None };
            enc_data(to & 0x7f, from & 0x7f, d, if rng.gen_bool(0.5) { Some(62) } else { None }, 0x40 | (rng.gen::<u8>() & 0x3f), &pdu)
        }
        9 => {
            // SD3-sized and maximum-sized frames
            let n = if rng.gen_bool(0.5) { 8 } else { 246 };
            let pdu: Vec<u8> = (0..n).map(|_| rng.gen()).collect();
            enc_data(to & 0x7f, from & 0x7f, None, None, rng.gen::<u8>() & 0x3f, &pdu)
        }
        _ => {
            let pdu: Vec<u8> = (0..rng.gen_range(0..20)).map(|_| rng.gen()).collect();
            enc_data(to & 0x7f, from & 0x7f, if rng.gen_bool(0.3) { Some(rng.gen()) } else { None }, if rng.gen_bool(0.3) { Some(rng.gen()) } else { None }, rng.gen(), &pdu)
        }
    }
}

fn mutate(rng: &mut R, mut b: Vec<u8>, pool: &[Vec<u8>]) -> Vec<u8> {
    if b.is_empty() {
        return b;
    }
    match rng.gen_range(0..9) {
        0 => { let i = rng.gen_range(0..b.len()); b[i] ^= 1 << rng.gen_range(0..8); }
        1 => { b.truncate(rng.gen_range(0..b.len())); }
        2 => { let c = b.clone(); b.extend(c); }
        3 => { if !pool.is_empty() { let o = &pool[rng.gen_range(0..pool.len())]; let k = rng.gen_range(0..=b.len()); b.truncate(k); b.extend_from_slice(&o[rng.gen_range(0..=o.len().saturating_sub(1))..]); } }
        4 => { let n = b.len(); b[n - 1] = rng.gen(); }
        5 => { if b.len() >= 3 { let n = b.len(); b[n - 2] = b[n - 2].wrapping_add(rng.gen_range(1..=255)); } }
        6 => { if b[0] == 0x68 && b.len() > 3 { let x: u8 = [0, 1, 2, 3, 249, 250, 253, 254, 255][rng.gen_range(0..9)]; b[1] = x; if rng.gen_bool(0.7) { b[2] = x; } } else { b[0] = [0x68u8, 0x10, 0xA2, 0xDC, 0xE5, 0x00][rng.gen_range(0..6)]; } }
        7 => { let i = rng.gen_range(0..=b.len()); b.insert(i, rng.gen()); }
        _ => { let i = rng.gen_range(0..b.len()); b.remove(i); }
    }
    b
}

/// a plausible answer to what the station just sent
fn react(rng: &mut R, ts: u8, tx: &[u8], nin: &[usize]) -> Option<Vec<u8>> {
    if tx.len() == 3 && tx[0] == 0xDC {
        let (da, sa) = (tx[1], tx[2]);
        if da == sa {
            return None;
        }
        // the successor uses the token and hands it back (or to somebody else)
        return Some(match rng.gen_range(0..4) {
            0 => vec![0xDC, sa, da],
            1 => vec![0xDC, rng.gen_range(0..=125), da],
            2 => enc_data(rng.gen_range(0..=125), da & 0x7f, None, None, 0x49, &[]),
            _ => vec![0xDC, sa, da, 0xDC, sa, da],
        });
    }
    let r = crate::dp::dec_req(tx)?;
    if r.sa != ts {
        return None;
    }
    if r.reqtype == 9 {
        return Some(enc_data(ts, r.da, None, None, [0x00u8, 0x10, 0x20, 0x30, 0x20, 0x20][rng.gen_range(0..6)], &[]));
    }
    Some(match r.dsap {
        Some(60) => enc_data(ts, r.da, Some(62), Some(60), [0x08u8, 0x08, 0x0A, 0x03][rng.gen_range(0..4)], &diag_body(rng, ts)),
        Some(61) | Some(62) => if rng.gen_bool(0.8) { vec![0xE5] } else { enc_data(ts, r.da, None, None, 0x03, &[]) },
        None => {
            let k = if nin.is_empty() { 0 } else { nin[rng.gen_range(0..nin.len())] };
            let n = [k, k, k, k + 1, k.saturating_sub(1), 0][rng.gen_range(0..6)];
            let pdu: Vec<u8> = (0..n).map(|_| rng.gen()).collect();
            if n == 0 && rng.gen_bool(0.5) { vec![0xE5] } else { enc_data(ts, r.da, None, None, [0x08u8, 0x08, 0x0A, 0x03, 0x02][rng.gen_range(0..5)], &pdu) }
        }
        _ => vec![0xE5],
    })
}

fn one_run(log: &mut EvLog, seed: u64, thorough: bool) {
    let mut rng = R::seed_from_u64(seed);
    let (baud, rate, slot) = [(Baudrate::B12000000, 12_000_000i64, 1000u16), (Baudrate::B1500000, 1_500_000, 300), (Baudrate::B500000, 500_000, 200), (Baudrate::B19200, 19_200, 100)][rng.gen_range(0..4)];
    let ts: u8 = match rng.gen_range(0..5) { 0 => 0, 1 => 125, 2 => 1, _ => rng.gen_range(0..=125) };
    let hsa: u8 = if ts == 125 { 126 } else { rng.gen_range(ts + 1..=126) };
    let mut pb = fdl::ParametersBuilder::new(ts, baud);
    pb.highest_station_address(hsa).slot_bits(slot).gap_wait_rotations(rng.gen_range(1..=4)).max_retry_limit(rng.gen_range(1..=3))
        .token_rotation_bits([2_000u32, 20_000, 16_000_000][rng.gen_range(0..3)]);
    if rng.gen_bool(0.3) {
        pb.watchdog_timeout(profirust::time::Duration::from_millis(rng.gen_range(10..100_000)));
    }
    let mut f = fdl::FdlActiveStation::new(pb.build());
    let apps = ["none", "dp", "dp", "dp", "livelist", "scanner", "multi"][rng.gen_range(0..7)];
    let np = if apps == "dp" || apps == "multi" { rng.gen_range(0..=3usize) } else { 0 };
    let mut others: Vec<u8> = vec![];
    let mut nin: Vec<usize> = vec![];
    let mut dpm = dp::DpMaster::new(vec![]);
    for _ in 0..np {
        let a = loop { let a = rng.gen_range(0..=125u8); if a != ts && !others.contains(&a) { break a; } };
        others.push(a);
        let n_in = [0usize, 1, 2, 8][rng.gen_range(0..4)];
        nin.push(n_in);
        let opts = dp::PeripheralOptions {
            ident_number: rng.gen(), sync_mode: rng.gen(), freeze_mode: rng.gen(), groups: rng.gen(), max_tsdr: 0, fail_safe: rng.gen(),
            user_parameters: Some(Box::leak((0..rng.gen_range(0..6)).map(|_| rng.gen::<u8>()).collect::<Vec<u8>>().into_boxed_slice())),
            config: Some(Box::leak((0..rng.gen_range(1..4)).map(|_| rng.gen::<u8>()).collect::<Vec<u8>>().into_boxed_slice())),
        };
        let mut p = dp::Peripheral::new(a, opts, vec![0u8; n_in], vec![0u8; [0usize, 1, 4][rng.gen_range(0..3)]]);
        match rng.gen_range(0..3) { 0 => {}, 1 => p = p.with_diag_buffer(vec![0u8; 4]), _ => p = p.with_diag_buffer(vec![0u8; 64]) }
        dpm.add(p);
    }
    for _ in 0..rng.gen_range(0..3) {
        others.push(rng.gen_range(0..=125));
    }
    let mut ll = fdl::live_list::LiveList::new();
    let mut sc = dp::scan::DpScanner::new();
    let mut phy = BufPhy::new(rate);
    log.push(json!({"ev":"Cfg","mode":"fuzz","seed":seed,"ts":ts,"hsa":hsa,"baud":rate,"slot":slot,"apps":apps,"np":np,"us":TPU}));
    log.flush();
    f.set_online();
    dpm.enter_operate();
    let slot_us = (slot as i64 * 1_000_000 / rate).max(1);
    let bit_us = (1_000_000 / rate).max(1);
    let mut now: i64 = rng.gen_range(0..1_000_000);
    let mut pool: Vec<Vec<u8>> = vec![];
    let mut pending: Vec<u8> = vec![];
    let mut seen_tx = 0usize;
    let mut states: BTreeSet<&'static str> = BTreeSet::new();
    let (mut polls, mut rxbytes, mut reacted) = (0u64, 0u64, 0u64);
    let hostile = [0.02, 0.1, 0.3, 0.7][rng.gen_range(0..4)];
    let steps = if thorough { 60_000 } else { 12_000 };
    for step in 0..steps {
        // ---- time
        now += match rng.gen_range(0..20) {
            0 => slot_us * rng.gen_range(1..700),          // token-lost time-outs
            1 | 2 => slot_us + rng.gen_range(0..slot_us),  // slot time-outs
            3 | 4 | 5 => rng.gen_range(0..=bit_us * 40),   // around Tsyn
            _ => rng.gen_range(0..=(slot_us / 4).max(1)),
        };
        // ---- environment: react to the station's transmissions, or inject
        while seen_tx < phy.tx.len() {
            let tx = phy.tx[seen_tx].clone();
            seen_tx += 1;
            if pool.len() < 64 { pool.push(tx.clone()); }
            if rng.gen_bool(0.85) {
                if let Some(mut r) = react(&mut rng, ts, &tx, &nin) {
                    if rng.gen_bool(hostile) { r = mutate(&mut rng, r, &pool); }
                    pending.extend(r);
                    reacted += 1;
                }
            } else if rng.gen_bool(0.3) {
                // the station hears its own telegram echoed (or a mutilated copy)
                let e = if rng.gen_bool(0.5) { tx.clone() } else { mutate(&mut rng, tx.clone(), &pool) };
                pending.extend(e);
            }
        }
        if rng.gen_bool(hostile * 0.5) {
            let mut g = grammar(&mut rng, ts, &others, &nin);
            if pool.len() < 64 { pool.push(g.clone()); }
            for _ in 0..rng.gen_range(0..3) {
                if rng.gen_bool(0.4) { g = mutate(&mut rng, g, &pool); }
            }
            pending.extend(g);
        }
        if rng.gen_bool(hostile * 0.1) {
            let n = rng.gen_range(1..40);
            pending.extend((0..n).map(|_| rng.gen::<u8>()));
        }
        // ---- deliver a chunk
        if !pending.is_empty() && now * TPU >= phy.busy_until {
            let k = if rng.gen_bool(0.6) { pending.len() } else { rng.gen_range(1..=pending.len()) };
            let chunk: Vec<u8> = pending.drain(..k).collect();
            rxbytes += chunk.len() as u64;
            phy.rx.extend(chunk);
            if phy.rx.len() > 4096 { phy.rx.clear(); }
        }
        // ---- API calls the documentation allows at any time
        if np > 0 && rng.gen_bool(0.002) {
            let k = rng.gen_range(0..np);
            if let Some((_, p)) = dpm.iter_mut().nth(k) {
                if rng.gen_bool(0.5) { p.request_diagnostics(); } else { for b in p.pi_q_mut() { *b = rng.gen(); } }
            }
        }
        if rng.gen_bool(0.0005) {
            if rng.gen_bool(0.5) { f.set_offline(); } else { f.set_online(); }
        }
        // ---- poll
        beat();
        let r = {
            let (fdl_, p) = (&mut f, &mut phy);
            let t = Instant::from_micros(now);
            match apps {
                "none" => guarded(|| { fdl_.poll(t, p, &mut ()); }),
                "dp" => { let d = &mut dpm; guarded(|| { fdl_.poll(t, p, d); let _ = d.take_last_events(); for (_, per) in d.iter() { let _ = format!("{:?}", per.last_diagnostics()); } }) }
                "livelist" => { let a = &mut ll; guarded(|| { fdl_.poll(t, p, a); let _ = a.take_last_event(); }) }
                "scanner" => { let a = &mut sc; guarded(|| { fdl_.poll(t, p, a); let _ = a.take_last_event(); }) }
                _ => { let (d, a) = (&mut dpm, &mut ll); guarded(|| { fdl_.poll_multi(t, p, &mut [d as &mut dyn fdl::FdlApplication, a as &mut dyn fdl::FdlApplication]); let _ = d.take_last_events(); let _ = a.take_last_event(); }) }
            }
        };
        polls += 1;
        if let Err((msg, loc)) = r {
            log.push(json!({"ev":"Panic","st":ts,"msg":msg,"loc":short_loc(&loc),"during":"poll","apps":apps,"step":step,
                            "rx_tail": phy.rx.iter().rev().take(40).rev().collect::<Vec<_>>(), "state": f.verif_view().state}));
            return;
        }
        states.insert(f.verif_view().state);
    }
    log.push(json!({"ev":"End","polls":polls,"rxbytes":rxbytes,"txs":phy.tx.len(),"reacted":reacted,"states":states.iter().collect::<Vec<_>>()}));
}

pub fn run(args: &Args) {
    let out = args.str("out", "/dev/stdout");
    let seed0: u64 = args.num("seed", 1);
    let runs: u64 = args.num("runs", 4);
    let thorough = args.str("tier", "quick") == "thorough";
    let mut log = EvLog::create(&out);
    for r in 0..runs {
        one_run(&mut log, seed0.wrapping_mul(1_000_003).wrapping_add(r), thorough);
        log.push(json!({"ev":"Reset"}));
    }
    log.flush();
    eprintln!("fuzz: {} events", log.count);
}
