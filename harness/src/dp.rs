//! `pbv dp`: real FdlActiveStation + DpMaster on the virtual bus against reference DP slaves
//! (DESIGN §5.5) behind a lossy / substituting channel, with power cycles and user calls.
//! Serves C03 C04 C07 C08 C14 (TraceDp.tla) and C05.
use crate::util::*;
use crate::vbus::*;
use profirust::{dp, fdl, Baudrate};
use profirust::time::Instant;
use rand::{Rng, SeedableRng};
use serde_json::{json, Value};

// ------------------------------------------------------------------ reference encoder / decoder (independent of the code under test)
pub fn enc_data(da: u8, sa: u8, dsap: Option<u8>, ssap: Option<u8>, fc: u8, pdu: &[u8]) -> Vec<u8> {
    let mut body = vec![da | if dsap.is_some() { 0x80 } else { 0 }, sa | if ssap.is_some() { 0x80 } else { 0 }, fc];
    if let Some(d) = dsap {
        body.push(d);
    }
    if let Some(s) = ssap {
        body.push(s);
    }
    body.extend_from_slice(pdu);
    let cs = body.iter().fold(0u8, |a, b| a.wrapping_add(*b));
    let le = body.len();
    let mut out = vec![];
    if le == 3 {
        out.push(0x10);
    } else if le == 11 {
        out.push(0xA2);
    } else {
        out.extend_from_slice(&[0x68, le as u8, le as u8, 0x68]);
    }
    out.extend(body);
    out.push(cs);
    out.push(0x16);
    out
}

#[derive(Debug, Clone)]
pub struct Req {
    pub da: u8,
    pub sa: u8,
    pub dsap: Option<u8>,
    pub ssap: Option<u8>,
    pub fcv: bool,
    pub fcb: bool,
    pub reqtype: u8,
    pub pdu: Vec<u8>,
}
pub fn dec_req(b: &[u8]) -> Option<Req> {
    if b.len() < 6 {
        return None;
    }
    let (hdr, le) = match b[0] {
        0x10 => (1, 3),
        0xA2 => (1, 11),
        0x68 => (4, b[1] as usize),
        _ => return None,
    };
    if b.len() < hdr + le + 2 {
        return None;
    }
    let body = &b[hdr..hdr + le];
    let fc = body[2];
    if fc & 0x40 == 0 {
        return None;
    }
    let mut i = 3;
    let dsap = if body[0] & 0x80 != 0 {
        i += 1;
        Some(body[i - 1])
    } else {
        None
    };
    let ssap = if body[1] & 0x80 != 0 {
        i += 1;
        Some(body[i - 1])
    } else {
        None
    };
    Some(Req { da: body[0] & 0x7f, sa: body[1] & 0x7f, dsap, ssap, fcv: fc & 0x10 != 0, fcb: fc & 0x20 != 0, reqtype: fc & 0x0f, pdu: body[i..].to_vec() })
}

// ------------------------------------------------------------------ reference slave (DpSlave.tla)
#[derive(Clone, Copy, PartialEq, Debug)]
pub enum SState {
    WaitPrm,
    WaitCfg,
    DataExch,
}
pub struct Slave {
    pub addr: u8,
    pub powered: bool,
    pub st: SState,
    pub stored_fcb: Option<bool>,
    pub last_resp: Vec<u8>,
    pub ident: u16,
    pub cfg: Vec<u8>,
    pub n_in: usize,
    pub n_out: usize,
    pub prm_fault: bool,
    pub cfg_fault: bool,
    pub diag_pending: bool,
    pub ext_diag: Vec<u8>,
    pub counter: u8,
    pub master: u8,
    pub outputs: Vec<u8>,
    pub got_prm: Vec<u8>,
    /// number of diagnosis polls after an accepted Chk_Cfg during which the slave still reports Station_Not_Ready
    pub ready_delay: u8,
    pub not_ready_left: u8,
}
impl Slave {
    pub fn diag_pdu(&self) -> Vec<u8> {
        let mut s1 = 0u8;
        let mut s2 = 0x04u8;
        if self.st != SState::DataExch || self.not_ready_left > 0 {
            s1 |= 0x02;
        }
        if self.cfg_fault {
            s1 |= 0x04;
        }
        if self.prm_fault {
            s1 |= 0x40;
        }
        if !self.ext_diag.is_empty() {
            s1 |= 0x08;
        }
        if self.st == SState::WaitPrm {
            s2 |= 0x01;
        }
        let m = if self.st == SState::WaitPrm { 255 } else { self.master };
        let mut v = vec![s1, s2, 0, m, (self.ident >> 8) as u8, self.ident as u8];
        v.extend_from_slice(&self.ext_diag);
        v
    }
    /// executes the request; returns the response bytes (None = no response)
    pub fn handle(&mut self, r: &Req) -> Option<Vec<u8>> {
        if !self.powered || r.da != self.addr {
            return None;
        }
        if r.reqtype == 9 {
            // FDL status: a slave answers with station type "slave"
            return Some(enc_data(r.sa, self.addr, None, None, 0x00, &[]));
        }
        if r.fcv {
            if self.stored_fcb == Some(r.fcb) {
                return Some(self.last_resp.clone());
            }
            self.stored_fcb = Some(r.fcb);
        } else if r.fcb {
            self.stored_fcb = Some(true);
        }
        let resp = match r.dsap {
            Some(60) => {
                self.diag_pending = false;
                let b = enc_data(r.sa, self.addr, Some(62), Some(60), 0x08, &self.diag_pdu());
                self.not_ready_left = self.not_ready_left.saturating_sub(1);
                b
            }
            Some(61) => {
                if r.pdu.len() >= 7 && u16::from_be_bytes([r.pdu[4], r.pdu[5]]) == self.ident {
                    self.prm_fault = false;
                    self.cfg_fault = false;
                    self.master = r.sa;
                    self.got_prm = r.pdu.clone();
                    if self.st == SState::WaitPrm {
                        self.st = SState::WaitCfg;
                    }
                } else {
                    self.prm_fault = true;
                    self.st = SState::WaitPrm;
                }
                vec![0xE5]
            }
            Some(62) => {
                if self.st == SState::WaitPrm {
                    enc_data(r.sa, self.addr, None, None, 0x03, &[])
                } else {
                    if r.pdu == self.cfg {
                        if self.st != SState::DataExch {
                            self.not_ready_left = self.ready_delay;
                        }
                        self.st = SState::DataExch;
                        self.cfg_fault = false;
                    } else {
                        self.cfg_fault = true;
                        self.st = SState::WaitPrm;
                    }
                    vec![0xE5]
                }
            }
            None => {
                if self.st == SState::DataExch && self.not_ready_left == 0 {
                    if r.pdu.len() == self.n_out {
                        self.outputs = r.pdu.clone();
                    }
                    self.counter = self.counter.wrapping_add(1);
                    if self.n_in == 0 {
                        vec![0xE5]
                    } else {
                        let inp: Vec<u8> = (0..self.n_in).map(|i| self.counter.wrapping_add(i as u8)).collect();
                        enc_data(r.sa, self.addr, None, None, if self.diag_pending { 0x0A } else { 0x08 }, &inp)
                    }
                } else {
                    enc_data(r.sa, self.addr, None, None, 0x03, &[])
                }
            }
            _ => return None,
        };
        self.last_resp = resp.clone();
        Some(resp)
    }
    pub fn power_cycle(&mut self) {
        self.st = SState::WaitPrm;
        self.stored_fcb = None;
        self.last_resp = vec![];
        self.prm_fault = false;
        self.cfg_fault = false;
        self.diag_pending = false;
        self.not_ready_left = 0;
    }
}

fn ev_name(e: dp::PeripheralEvent) -> &'static str {
    match e {
        dp::PeripheralEvent::Online => "Online",
        dp::PeripheralEvent::Configured => "Configured",
        dp::PeripheralEvent::ConfigError => "ConfigError",
        dp::PeripheralEvent::ParameterError => "ParameterError",
        dp::PeripheralEvent::DataExchanged => "DataExchanged",
        dp::PeripheralEvent::Diagnostics => "Diagnostics",
        dp::PeripheralEvent::Offline => "Offline",
    }
}

pub struct PerCfg {
    pub addr: u8,
    pub slot: usize,
    pub ident: u16,
    pub n_in: usize,
    pub n_out: usize,
    pub prm: Vec<u8>,
    pub cfg: Vec<u8>,
    pub sync: bool,
    pub freeze: bool,
    pub groups: u8,
    pub diagbuf: usize,
    pub mismatch: bool, // the slave expects another configuration (never becomes ready)
}

/// substituted reply kinds (what the channel delivers instead of the slave's answer)
const SUBST: [&str; 14] = ["sc", "ue", "rr", "rs", "nr", "diaglike", "wronglen", "wrongsrc", "request", "onlydsap", "onlyssap", "withsaps", "diagflags", "diagflags"];
const SUBST2: [&str; 5] = ["token", "garbage", "diagshort", "shortlen", "dhwrong"];

/// bytes for an abstract reply code of MC_DpSched (Code(r)): "sc", "odd", "diag.<pf><cf><pr><nr>", "data.<status>.<lenok>"
fn abstract_reply(code: &str, maddr: u8, r: &Req, n_in: usize, ident: u16) -> Vec<u8> {
    let parts: Vec<&str> = code.split('.').collect();
    match parts[0] {
        "sc" => vec![0xE5],
        "diag" => {
            let f: Vec<bool> = parts.get(1).unwrap_or(&"0000").chars().map(|c| c == '1').collect();
            let s1 = (if f[0] { 0x40 } else { 0 }) | (if f[1] { 0x04 } else { 0 }) | (if f[3] { 0x02 } else { 0 });
            let s2 = 0x04 | (if f[2] { 0x01 } else { 0 });
            enc_data(maddr, r.da, Some(62), Some(60), 0x08, &[s1, s2, 0, if f[2] { 255 } else { maddr }, (ident >> 8) as u8, ident as u8])
        }
        "data" => {
            let st = match *parts.get(1).unwrap_or(&"ok") { "ok" => 0x00, "dl" => 0x08, "dh" => 0x0A, "rs" => 0x03, _ => 0x02 };
            let n = if parts.get(2) == Some(&"1") { n_in } else { n_in + 1 };
            enc_data(maddr, r.da, None, None, st, &vec![0x5A; n])
        }
        // a response that is neither a usable diagnosis nor a Data_Exchange reply: foreign SAPs, or the diagnosis
        // SAPs with fewer than 6 bytes (alternating by request bits so that both occur)
        _ => if r.fcb { enc_data(maddr, r.da, Some(10), Some(20), 0x08, &vec![0xA5; n_in]) } else { enc_data(maddr, r.da, Some(62), Some(60), 0x08, &[0x02, 0x05, 0x00]) },
    }
}

fn substitute(kind: &str, maddr: u8, r: &Req, n_in: usize, rng: &mut impl Rng) -> Vec<u8> {
    match kind {
        "sc" => vec![0xE5],
        "ue" => enc_data(maddr, r.da, None, None, 0x01, &[]),
        "rr" => enc_data(maddr, r.da, None, None, 0x02, &[]),
        "rs" => enc_data(maddr, r.da, None, None, 0x03, &[]),
        "nr" => enc_data(maddr, r.da, None, None, 0x09, &[]),
        "diaglike" => enc_data(maddr, r.da, Some(62), Some(60), 0x08, &[0x02, 0x05, 0, 255, 0x12, 0x00]),
        "diagflags" => {
            // every combination of the readiness-relevant flags, varied independently
            let mut s1 = 0u8;
            for bit in [0x02u8, 0x04, 0x40, 0x08] {
                if rng.gen_bool(0.35) {
                    s1 |= bit;
                }
            }
            let s2 = 0x04 | if rng.gen_bool(0.4) { 0x01 } else { 0 } | if rng.gen_bool(0.2) { 0x08 } else { 0 };
            let mut pdu = vec![s1, s2, 0, if rng.gen_bool(0.5) { 255 } else { maddr }, rng.gen(), rng.gen()];
            if s1 & 0x08 != 0 {
                let n = rng.gen_range(0..6);
                for _ in 0..n {
                    pdu.push(rng.gen());
                }
            }
            enc_data(maddr, r.da, Some(62), Some(60), 0x08, &pdu)
        }
        "diagshort" => enc_data(maddr, r.da, Some(62), Some(60), 0x08, &[0x02, 0x05, 0]),
        "wronglen" => enc_data(maddr, r.da, None, None, 0x08, &vec![7u8; n_in + 1]),
        "wrongsrc" => enc_data(maddr, r.da.wrapping_add(1) & 0x7f, None, None, 0x08, &vec![7u8; n_in]),
        "request" => enc_data(r.da, maddr, None, None, 0x6D, &[]),
        "withsaps" => enc_data(maddr, r.da, Some(62), Some(60), 0x08, &(0..n_in).map(|_| rng.gen()).collect::<Vec<u8>>()),
        "onlydsap" => enc_data(maddr, r.da, Some([62u8, 0, 51][rng.gen_range(0..3)]), None, [0x08u8, 0x00, 0x0A][rng.gen_range(0..3)], &(0..n_in).map(|_| rng.gen()).collect::<Vec<u8>>()),
        "onlyssap" => enc_data(maddr, r.da, None, Some([60u8, 0, 62][rng.gen_range(0..3)]), [0x08u8, 0x00, 0x0A][rng.gen_range(0..3)], &(0..n_in).map(|_| rng.gen()).collect::<Vec<u8>>()),
        "shortlen" => enc_data(maddr, r.da, None, None, 0x08, &vec![9u8; n_in.saturating_sub(1)]),
        "dhwrong" => enc_data(maddr, r.da, None, None, 0x0A, &vec![9u8; n_in + 2]),
        "token" => vec![0xDC, maddr, r.da],
        _ => vec![0x00, 0x55, 0xAA],
    }
}

/// Wraps the real DpMaster: every FdlApplication call-back is recorded with the master's state
/// (hook views) before and after, for conformance checking against spec/Dp.tla (TraceDpM).
struct DpWrap<'a, 'b> {
    inner: &'b mut dp::DpMaster<'a>,
    calls: Option<std::rc::Rc<std::cell::RefCell<Vec<Value>>>>,
}
impl DpWrap<'_, '_> {
    fn view(&self) -> Value {
        let per: Vec<Value> = self.inner.iter().map(|(_, p)| {
            let v = p.verif_view();
            json!({"st": v.state, "rc": v.retry_count, "fcb": v.fcb, "dn": v.diag_needed, "dif": v.diag_in_flight})
        }).collect();
        let ev = self.inner.verif_last_events();
        let pos = |h: dp::PeripheralHandle| self.inner.iter().position(|(x, _)| x == h).map(|x| x as i64 + 1).unwrap_or(-1);
        let (p, e) = match ev.peripheral { Some((h, e)) => (pos(h), ev_name(e)), None => (0, "none") };
        json!({"per": per, "cyc": self.inner.verif_cycle_index(), "ev": {"cc": ev.cycle_completed, "p": p, "e": e}})
    }
}
impl fdl::FdlApplication for DpWrap<'_, '_> {
    fn transmit_telegram(&mut self, now: Instant, f: &fdl::FdlActiveStation, tx: fdl::TelegramTx, hp: fdl::HighPrioOnly) -> Option<fdl::TelegramTxResponse> {
        let Some(calls) = self.calls.clone() else { return self.inner.transmit_telegram(now, f, tx, hp) };
        let pre = self.view();
        let r = self.inner.transmit_telegram(now, f, tx, hp);
        calls.borrow_mut().push(json!({"ev":"MTx","hp": hp == fdl::HighPrioOnly::Yes, "sent": r.is_some(), "pre": pre, "post": self.view()}));
        r
    }
    fn receive_reply(&mut self, now: Instant, f: &fdl::FdlActiveStation, addr: u8, t: fdl::Telegram) {
        let Some(calls) = self.calls.clone() else { return self.inner.receive_reply(now, f, addr, t) };
        let pre = self.view();
        let cyc = self.inner.verif_cycle_index();
        let nin = if cyc >= 0 { self.inner.iter().nth(cyc as usize).map(|(_, p)| p.pi_i().len()) } else { None };
        let r = match &t {
            fdl::Telegram::ShortConfirmation(_) => json!({"k":"sc","diagok":false,"pf":false,"cf":false,"pr":false,"nr":false,"status":"ok","dxsaps":false,"lenok":false}),
            fdl::Telegram::Data(d) => {
                let diagok = d.h.dsap == Some(62) && d.h.ssap == Some(60) && d.pdu.len() >= 6;
                let fl = |byte: usize, mask: u8| diagok && d.pdu[byte] & mask != 0;
                let status = match d.is_response() {
                    Some(fdl::ResponseStatus::Ok) => "ok",
                    Some(fdl::ResponseStatus::DataLow) => "dl",
                    Some(fdl::ResponseStatus::DataHigh) => "dh",
                    Some(fdl::ResponseStatus::SapNotEnabled) => "rs",
                    Some(_) => "other",
                    None => "request",
                };
                json!({"k":"data","diagok":diagok,"pf":fl(0,0x40),"cf":fl(0,0x04),"pr":fl(1,0x01),"nr":fl(0,0x02),"status":status,
                       "dxsaps": d.h.dsap.is_none() && d.h.ssap.is_none(), "lenok": Some(d.pdu.len()) == nin})
            }
            fdl::Telegram::Token(_) => json!({"k":"token"}),
        };
        self.inner.receive_reply(now, f, addr, t);
        calls.borrow_mut().push(json!({"ev":"MRx","addr":addr,"r":r,"pre":pre,"post":self.view()}));
    }
    fn handle_timeout(&mut self, now: Instant, f: &fdl::FdlActiveStation, addr: u8) {
        let Some(calls) = self.calls.clone() else { return self.inner.handle_timeout(now, f, addr) };
        let pre = self.view();
        self.inner.handle_timeout(now, f, addr);
        calls.borrow_mut().push(json!({"ev":"MTo","addr":addr,"pre":pre,"post":self.view()}));
    }
}

pub fn run(args: &Args) {
    let out = args.str("out", "/dev/stdout");
    let mout = args.str("mout", "");
    let mut mlog = if mout.is_empty() { None } else { Some(EvLog::create(&mout)) };
    let seed0: u64 = args.num("seed", 1);
    let runs: u64 = args.num("runs", 1);
    let thorough = args.str("tier", "quick") == "thorough";
    let mode = args.str("mode", "random");
    let mut log = EvLog::create(&out);
    let sched_file = args.str("sched", "");
    if !sched_file.is_empty() {
        // spec -> impl: fault schedules printed by TLC from MC_DpSched, one JSON object per line
        let text = std::fs::read_to_string(&sched_file).expect("schedule file");
        for (k, line) in text.lines().enumerate() {
            let sc: Value = serde_json::from_str(line).expect("schedule line");
            one_run(&mut log, &mut mlog, seed0.wrapping_mul(1_000_003).wrapping_add(k as u64), thorough, "sched", Some(&sc));
            log.push(json!({"ev":"Reset"}));
            if let Some(m) = mlog.as_mut() {
                m.push(json!({"ev":"Reset"}));
            }
        }
        log.flush();
        if let Some(m) = mlog.as_mut() {
            m.flush();
        }
        eprintln!("dp: {} events", log.count);
        return;
    }
    for r in 0..runs {
        let seed = seed0.wrapping_mul(1_000_003).wrapping_add(r);
        one_run(&mut log, &mut mlog, seed, thorough, &mode, None);
        log.push(json!({"ev":"Reset"}));
        if let Some(m) = mlog.as_mut() {
            m.push(json!({"ev":"Reset"}));
        }
    }
    log.flush();
    if let Some(m) = mlog.as_mut() {
        m.flush();
    }
    eprintln!("dp: {} events", log.count);
}

fn one_run(log: &mut EvLog, mlog: &mut Option<EvLog>, seed: u64, thorough: bool, mode: &str, sched: Option<&Value>) {
    let mut rng = rand::rngs::StdRng::seed_from_u64(seed);
    let bauds = [(Baudrate::B500000, 500_000i64, 200u16), (Baudrate::B1500000, 1_500_000, 300), (Baudrate::B187500, 187_500, 100), (Baudrate::B12000000, 12_000_000, 1000)];
    let (baud, rate, minslot) = bauds[rng.gen_range(0..bauds.len())];
    let slot: u16 = minslot + 100 * rng.gen_range(0..2);
    let retry: u8 = if let Some(sc) = sched { sc["retry"].as_u64().unwrap() as u8 } else if thorough && rng.gen_bool(0.2) { rng.gen_range(1..=15) } else { rng.gen_range(1..=3) };
    let np = if let Some(sc) = sched { sc["np"].as_u64().unwrap() as usize } else if mode == "empty" { 0 } else { rng.gen_range(1..=if thorough { 4 } else { 3 }) as usize };
    let items: Vec<Value> = sched.map(|sc| sc["h"].as_array().cloned().unwrap_or_default()).unwrap_or_default();
    let mut ipos = 0usize;
    let maddr = 2u8;
    let hsa = rng.gen_range(3..=5u8);
    let min_tsdr: u8 = [11u8, 11, 20, 60][rng.gen_range(0..4)];
    let wd_ms: Option<u64> = match rng.gen_range(0..4) {
        0 => None,
        1 => Some(10),
        2 => Some(rng.gen_range(10..5000)),
        _ => Some(rng.gen_range(10..=650_000)),
    };
    let mut pb = fdl::ParametersBuilder::new(maddr, baud);
    pb.highest_station_address(hsa).slot_bits(slot).max_retry_limit(retry).gap_wait_rotations(rng.gen_range(1..=20)).min_tsdr(min_tsdr);
    // a tight target rotation time makes the token "late": the master is then asked for high-priority traffic only
    let ttr_bits: Option<u32> = if sched.is_none() && rng.gen_bool(0.3) { Some([256u32, 500, 1000, 2000][rng.gen_range(0..4)]) } else { None };
    if let Some(t) = ttr_bits {
        pb.token_rotation_bits(t);
    }
    if let Some(ms) = wd_ms {
        pb.watchdog_timeout(profirust::time::Duration::from_millis(ms));
    }
    let params = pb.build();
    let wd = params.watchdog_factors;
    // ---- peripherals in (possibly sparse) storage slots
    let vec_storage = rng.gen_bool(0.5);
    let nslots = if vec_storage { 0 } else { np + rng.gen_range(0..3) };
    let mut pcs: Vec<PerCfg> = vec![];
    let mut used = std::collections::HashSet::new();
    for _ in 0..np {
        let addr = loop {
            let a: u8 = if rng.gen_bool(0.15) { rng.gen_range(0..hsa) } else { rng.gen_range(hsa..=125) };
            if a != maddr && used.insert(a) {
                break a;
            }
        };
        let big = thorough && rng.gen_bool(0.1);
        let n_in = if let Some(sc) = sched { if sc["nin0"][pcs.len()].as_bool().unwrap_or(false) { 0 } else { rng.gen_range(1..5usize) } }
                   else if big { rng.gen_range(0..=244) } else { rng.gen_range(0..5usize) };
        let n_out = if big { rng.gen_range(0..=244) } else { rng.gen_range(0..5usize) };
        let nprm = if big { rng.gen_range(0..=237) } else { rng.gen_range(0..6usize) };
        let ncfg = if big { rng.gen_range(1..=244) } else { rng.gen_range(1..4usize) };
        pcs.push(PerCfg {
            addr,
            slot: 0,
            ident: rng.gen(),
            n_in,
            n_out,
            prm: (0..nprm).map(|_| rng.gen()).collect(),
            cfg: (0..ncfg).map(|_| rng.gen()).collect(),
            sync: rng.gen_bool(0.2),
            freeze: rng.gen_bool(0.2),
            groups: if rng.gen_bool(0.5) { 0 } else { rng.gen() },
            diagbuf: [0usize, 0, 8, 64][rng.gen_range(0..4)],
            mismatch: false,
        });
    }
    // slot order = address order is NOT implied: peripherals are added in generation order
    let mut dpm = if vec_storage {
        dp::DpMaster::new(Vec::new())
    } else {
        let storage: Vec<dp::PeripheralStorage> = (0..nslots).map(|_| Default::default()).collect();
        dp::DpMaster::new(Box::leak(storage.into_boxed_slice()) as &'static mut [dp::PeripheralStorage])
    };
    let mut handles = vec![];
    for pc in pcs.iter_mut() {
        let opts = dp::PeripheralOptions {
            ident_number: pc.ident,
            sync_mode: pc.sync,
            freeze_mode: pc.freeze,
            groups: pc.groups,
            max_tsdr: 100,
            fail_safe: false,
            user_parameters: Some(Box::leak(pc.prm.clone().into_boxed_slice())),
            config: Some(Box::leak(pc.cfg.clone().into_boxed_slice())),
        };
        let mut p = dp::Peripheral::new(pc.addr, opts, vec![0u8; pc.n_in], vec![0u8; pc.n_out]);
        if pc.diagbuf > 0 {
            p = p.with_diag_buffer(vec![0u8; pc.diagbuf]);
        }
        handles.push(dpm.add(p));
    }
    let mut slaves: Vec<Slave> = pcs
        .iter()
        .map(|pc| Slave {
            addr: pc.addr,
            powered: true,
            st: SState::WaitPrm,
            stored_fcb: None,
            last_resp: vec![],
            ident: pc.ident,
            cfg: pc.cfg.clone(),
            n_in: pc.n_in,
            n_out: pc.n_out,
            prm_fault: false,
            cfg_fault: false,
            diag_pending: false,
            ext_diag: vec![],
            counter: 0,
            master: 255,
            outputs: vec![],
            got_prm: vec![],
            ready_delay: 0,
            not_ready_left: 0,
        })
        .collect();
    if sched.is_none() {
        for sl in slaves.iter_mut() {
            if rng.gen_bool(0.3) {
                sl.ready_delay = rng.gen_range(1..=6);
            }
        }
    }
    let bus = Bus::new(rate);
    let mut phy = VPhy::new(bus.clone(), 0);
    let mut f = fdl::FdlActiveStation::new(params);
    let bits = |n: i64| n * 12_000_000 / rate;
    let tsl = bits(slot as i64);
    let slot_us = slot as i64 * 1_000_000 / rate;
    let period_us = (slot_us / rng.gen_range(4..32)).max(1);
    let bdp_cycles = 4 * (retry as i64 + 2) + 10;
    log.push(json!({
        "ev":"Cfg","mode":"dp","seed":seed,"master":maddr,"stations":[maddr],"hsa":hsa,"retry":retry,"baud":rate,"slot_bits":slot,
        "tsl":tsl,"tid":bits(33),"tsdr":bits(11),"us":TPU,"min_tsdr":min_tsdr,
        "wd": wd.map(|(a,b)| vec![a as i64, b as i64]).unwrap_or_default(), "wd_ms": wd_ms.map(|x| x as i64).unwrap_or(-1),
        "bdp": bdp_cycles,
        "per": pcs.iter().map(|p| json!({"addr":p.addr,"ident":p.ident,"n_in":p.n_in,"n_out":p.n_out,"prm":p.prm,"cfg":p.cfg,
            "sync":p.sync,"freeze":p.freeze,"groups":p.groups})).collect::<Vec<_>>(),
    }));
    log.flush();
    f.set_online();
    dpm.enter_operate();
    let mcalls: Option<std::rc::Rc<std::cell::RefCell<Vec<Value>>>> = mlog.as_ref().map(|_| Default::default());
    if let Some(m) = mlog.as_mut() {
        m.push(json!({"ev":"Cfg","mode":"dpm","seed":seed,"retry":retry,"np":np,
            "per": pcs.iter().map(|p| json!({"prm":true,"cfg":true,"nin0":p.n_in == 0})).collect::<Vec<_>>()}));
    }

    // ---- fault plan
    // mode "edge": the only faults are bursts of exactly `retry` lost transmissions of one request (the boundary of
    // the retry limit), optionally with a power cycle of the slave at the start of the burst, and frequent
    // request_diagnostics() calls
    let edge = mode == "edge";
    let mut burst: Vec<u32> = vec![0; np];
    let mut lastreq: Vec<Vec<u8>> = vec![vec![]; np];
    let fault_p: f64 = if mode == "clean" || mode == "neg" || edge { 0.0 } else if mode == "flags" { 0.05 } else { [0.0, 0.03, 0.1, 0.3, 0.6][rng.gen_range(0..5)] };
    let fault_len_us: i64 = rng.gen_range(50..800) * slot_us;
    let start_us: i64 = 0;
    let mut fault_until = if sched.is_some() { i64::MAX / 4 } else { start_us + fault_len_us };
    let mut faults_end_logged = false;
    let mut neg_started = false;
    let mut cycles_after = 0i64;
    let mut now = 0i64;
    let mut seen_tx = 0usize;
    let mut pending_reply: Option<(i64, Vec<u8>, u8)> = None; // (time ticks, bytes, sender addr)
    let mut last_flags: Vec<(bool, bool, Vec<u8>)> = pcs.iter().map(|p| (false, false, vec![0u8; p.n_in])).collect();
    let mut polls = 0u64;
    let max_cycles_after = bdp_cycles + 6;
    let mut hard_stop_us = if sched.is_some() { i64::MAX / 2 } else { fault_until + 4000 * slot_us * (np as i64 + 1) * (retry as i64 + 1) };
    loop {
        if sched.is_some() && ipos >= items.len() && fault_until > now && pending_reply.is_none() {
            // the schedule is consumed: the rest of the run is fault-free
            fault_until = now;
            hard_stop_us = now + 4000 * slot_us * (np as i64 + 1) * (retry as i64 + 1);
        }
        now += 1.max(period_us / 2 + rng.gen_range(0..=period_us / 2));
        let tt = now * TPU;
        if now > hard_stop_us {
            break;
        }
        // ---- deliver a pending reply when its time has come
        if let Some((t, _, _)) = &pending_reply {
            if *t <= tt {
                let (t, b, a) = pending_reply.take().unwrap();
                let end = bus.borrow_mut().transmit(t, 1000 + a as usize, b.clone(), true);
                seen_tx = bus.borrow().txs.len().max(seen_tx);
                log.push(json!({"ev":"Tx","st":a,"env":true,"t0":t,"t1":end,"b":b}));
            }
        }
        let in_faults = now < fault_until;
        if !in_faults && !faults_end_logged {
            for (i, s) in slaves.iter_mut().enumerate() {
                if !s.powered {
                    s.powered = true;
                    s.power_cycle();
                    log.push(json!({"ev":"Power","p":i + 1,"on":true,"t":tt}));
                }
                s.prm_fault = false;
                s.cfg_fault = false;
            }
            log.push(json!({"ev":"FaultsEnd","t":tt}));
            faults_end_logged = true;
        }
        // ---- user calls and slave-side events at arbitrary points between polls
        if np > 0 && sched.is_none() {
            if rng.gen_bool(if edge { 0.01 } else { 0.002 }) {
                let i = rng.gen_range(0..np);
                dpm.get_mut(handles[i]).request_diagnostics();
                log.push(json!({"ev":"UserDiag","p":i + 1,"t":tt}));
            }
            if rng.gen_bool(0.0015) {
                // the documentation allows enter_operate() at any time; calling it again must not disturb the cycle
                dpm.enter_operate();
                log.push(json!({"ev":"UserOperate","t":tt}));
            }
            if rng.gen_bool(0.01) {
                let i = rng.gen_range(0..np);
                let p = dpm.get_mut(handles[i]);
                for b in p.pi_q_mut().iter_mut() {
                    *b = rng.gen();
                }
                let q = p.pi_q().to_vec();
                log.push(json!({"ev":"UserWrite","p":i + 1,"q":q,"t":tt}));
            }
            if in_faults && rng.gen_bool(0.0006) {
                let i = rng.gen_range(0..np);
                slaves[i].power_cycle();
                log.push(json!({"ev":"PowerCycle","p":i + 1,"t":tt}));
            }
            if in_faults && rng.gen_bool(0.0003) {
                let i = rng.gen_range(0..np);
                slaves[i].powered = !slaves[i].powered;
                if slaves[i].powered {
                    slaves[i].power_cycle();
                }
                log.push(json!({"ev":"Power","p":i + 1,"on":slaves[i].powered,"t":tt}));
            }
            if rng.gen_bool(0.001) {
                let i = rng.gen_range(0..np);
                slaves[i].diag_pending = true;
                if rng.gen_bool(0.5) {
                    let n = rng.gen_range(0..12usize);
                    slaves[i].ext_diag = (0..n).map(|_| rng.gen()).collect();
                }
            }
            if in_faults && rng.gen_bool(0.0003) {
                let i = rng.gen_range(0..np);
                if rng.gen_bool(0.5) {
                    slaves[i].prm_fault = true;
                } else {
                    slaves[i].cfg_fault = true;
                }
            }
        }
        // ---- poll
        beat();
        let r = {
            let fdl_ = &mut f;
            let p = &mut phy;
            let d = &mut dpm;
            let c = mcalls.clone();
            guarded(|| {
                {
                    let mut w = DpWrap { inner: &mut *d, calls: c };
                    fdl_.poll(Instant::from_micros(now), p, &mut w);
                }
                d.take_last_events()
            })
        };
        if let (Some(m), Some(c)) = (mlog.as_mut(), mcalls.as_ref()) {
            for e in c.borrow_mut().drain(..) {
                m.push(e);
            }
        }
        polls += 1;
        let ev = match r {
            Ok(ev) => ev,
            Err((msg, loc)) => {
                log.push(json!({"ev":"Panic","st":maddr,"t":tt,"msg":msg,"loc":short_loc(&loc),"during":"poll"}));
                break;
            }
        };
        // ---- master transmissions of this poll
        let ntx = bus.borrow().txs.len();
        while seen_tx < ntx {
            let (sender, bytes, start, end) = {
                let b = bus.borrow();
                let t = &b.txs[seen_tx];
                (t.sender, t.bytes.clone(), t.start, t.end())
            };
            seen_tx += 1;
            if sender != 0 {
                continue;
            }
            log.push(json!({"ev":"Tx","st":maddr,"t0":start,"t1":end,"b":bytes}));
            let Some(r) = dec_req(&bytes) else { continue };
            if r.da == 127 {
                continue;
            }
            let Some(i) = slaves.iter().position(|s| s.addr == r.da) else { continue };
            // environment: channel decision for this request
            if sched.is_some() && ipos < items.len() {
                // walk the schedule up to the decision about this request; environment items on the way are applied now
                let mut decision: Option<Value> = None;
                while ipos < items.len() {
                    let it = items[ipos].clone();
                    ipos += 1;
                    let k = it["k"].as_str().unwrap_or("");
                    let pi = (it["p"].as_u64().unwrap_or(1) as usize).saturating_sub(1).min(np.saturating_sub(1));
                    match k {
                        "tx" => {}
                        "powercycle" => { slaves[pi].power_cycle(); log.push(json!({"ev":"PowerCycle","p":pi + 1,"t":tt})); }
                        "poweroff" => { slaves[pi].powered = false; slaves[pi].power_cycle(); log.push(json!({"ev":"Power","p":pi + 1,"on":false,"t":tt})); }
                        "poweron" => { slaves[pi].powered = true; slaves[pi].power_cycle(); log.push(json!({"ev":"Power","p":pi + 1,"on":true,"t":tt})); }
                        "slavediag" => { slaves[pi].diag_pending = true; }
                        "userdiag" => { dpm.get_mut(handles[pi]).request_diagnostics(); log.push(json!({"ev":"UserDiag","p":pi + 1,"t":tt})); }
                        _ => { decision = Some(it); break; }
                    }
                }
                // items the model placed between this decision and the master's next transmit are applied right away
                while ipos < items.len() && !matches!(items[ipos]["k"].as_str().unwrap_or(""), "tx" | "deliver" | "losereq" | "losereply" | "subst" | "nobody") {
                    let it = items[ipos].clone();
                    ipos += 1;
                    let pi = (it["p"].as_u64().unwrap_or(1) as usize).saturating_sub(1).min(np.saturating_sub(1));
                    match it["k"].as_str().unwrap_or("") {
                        "powercycle" => { slaves[pi].power_cycle(); log.push(json!({"ev":"PowerCycle","p":pi + 1,"t":tt})); }
                        "poweroff" => { slaves[pi].powered = false; slaves[pi].power_cycle(); log.push(json!({"ev":"Power","p":pi + 1,"on":false,"t":tt})); }
                        "poweron" => { slaves[pi].powered = true; slaves[pi].power_cycle(); log.push(json!({"ev":"Power","p":pi + 1,"on":true,"t":tt})); }
                        "slavediag" => { slaves[pi].diag_pending = true; }
                        "userdiag" => { dpm.get_mut(handles[pi]).request_diagnostics(); log.push(json!({"ev":"UserDiag","p":pi + 1,"t":tt})); }
                        _ => {}
                    }
                }
                if let Some(d) = decision {
                    let dmax = (slot as i64 - 40).min(90).max(min_tsdr as i64);
                    let delay = bits(rng.gen_range(min_tsdr as i64..=dmax));
                    match d["k"].as_str().unwrap_or("") {
                        "losereq" => { log.push(json!({"ev":"Env","k":"LoseReq","p":i + 1,"t":end})); continue; }
                        "losereply" => { let _ = slaves[i].handle(&r); log.push(json!({"ev":"Env","k":"LoseReply","p":i + 1,"t":end})); continue; }
                        "subst" => {
                            if slaves[i].handle(&r).is_some() {
                                let b = abstract_reply(d["r"].as_str().unwrap_or("sc"), maddr, &r, slaves[i].n_in, slaves[i].ident);
                                log.push(json!({"ev":"Env","k":"Subst","p":i + 1,"t":end,"code":d["r"]}));
                                pending_reply = Some((end + delay, b, r.da));
                            }
                            continue;
                        }
                        _ => {
                            // "deliver" / "nobody": the slave (if powered) answers
                            if let Some(good) = slaves[i].handle(&r) {
                                pending_reply = Some((end + delay, good, r.da));
                            }
                            continue;
                        }
                    }
                }
            }
            if edge {
                let fresh = lastreq[i] != bytes;
                lastreq[i] = bytes.clone();
                if burst[i] == 0 && fresh && in_faults && rng.gen_bool(0.15) {
                    burst[i] = retry as u32 + if rng.gen_bool(0.15) { 1 } else { 0 };   // mostly exactly the limit, sometimes one more
                    if rng.gen_bool(0.5) {
                        slaves[i].power_cycle();
                        log.push(json!({"ev":"PowerCycle","p":i + 1,"t":tt}));
                    }
                }
                if burst[i] > 0 {
                    burst[i] -= 1;
                    if rng.gen_bool(0.5) {
                        log.push(json!({"ev":"Env","k":"LoseReq","p":i + 1,"t":end}));
                    } else {
                        let _ = slaves[i].handle(&r);
                        log.push(json!({"ev":"Env","k":"LoseReply","p":i + 1,"t":end}));
                    }
                    continue;
                }
            }
            let faulty = in_faults && rng.gen_bool(fault_p);
            let kind = if mode == "neg" && in_faults && now > fault_until / 3 {
                // all slaves lost their parameters and every Set_Prm / Chk_Cfg is answered by a
                // well-formed but negative response
                if !neg_started {
                    neg_started = true;
                    for (j, s) in slaves.iter_mut().enumerate() {
                        s.power_cycle();
                        log.push(json!({"ev":"PowerCycle","p":j + 1,"t":tt}));
                    }
                }
                if matches!(r.dsap, Some(61) | Some(62)) { 4 + rng.gen_range(1..5) } else { 999 }
            } else if mode == "flags" && in_faults && r.dsap == Some(60) && rng.gen_bool(0.5) {
                // diagnosis replies with arbitrary, independently varied flag combinations
                4 + 12
            } else if faulty {
                rng.gen_range(0..(4 + SUBST.len() + if thorough { SUBST2.len() } else { 3 }))
            } else {
                999
            };
            if kind == 0 {
                log.push(json!({"ev":"Env","k":"LoseReq","p":i + 1,"t":end}));
                continue;
            }
            let good = slaves[i].handle(&r);
            let Some(good) = good else { continue };
            let reply: Option<Vec<u8>> = match kind {
                1 | 2 => None,
                999 | 3 => Some(good),
                k => {
                    let idx = k - 4;
                    let name = if idx < SUBST.len() { SUBST[idx] } else { SUBST2[(idx - SUBST.len()) % SUBST2.len()] };
                    Some(substitute(name, maddr, &r, slaves[i].n_in, &mut rng))
                }
            };
            match reply {
                None => log.push(json!({"ev":"Env","k":"LoseReply","p":i + 1,"t":end})),
                Some(b) => {
                    // respond after min_tsdr .. 100 bit times
                    let dmax = (slot as i64 - 40).min(90).max(min_tsdr as i64);
                    let d = bits(rng.gen_range(min_tsdr as i64..=dmax));
                    pending_reply = Some((end + d, b, r.da));
                }
            }
        }
        // ---- DP view after the poll
        let mut changed = ev.cycle_completed || ev.peripheral.is_some();
        let mut live = vec![];
        let mut running = vec![];
        let mut pii = vec![];
        for i in 0..np {
            let p = dpm.get_mut(handles[i]);
            let cur = (p.is_live(), p.is_running(), p.pi_i().to_vec());
            if cur != last_flags[i] {
                changed = true;
                last_flags[i] = cur.clone();
            }
            live.push(cur.0);
            running.push(cur.1);
            pii.push(cur.2);
        }
        if changed {
            let pev: Value = match ev.peripheral {
                Some((h, e)) => json!([handles.iter().position(|x| *x == h).map(|x| x as i64 + 1).unwrap_or(-1), ev_name(e), h.address()]),
                None => json!([]),
            };
            log.push(json!({"ev":"Dp","t":tt,"cc":ev.cycle_completed,"pev":pev,"live":live,"running":running,"pii":pii}));
        }
        if ev.cycle_completed && faults_end_logged {
            cycles_after += 1;
            if cycles_after >= max_cycles_after {
                break;
            }
        }
        if np == 0 && polls > 20_000 {
            break;
        }
    }
    log.push(json!({"ev":"End","t":now * TPU,"polls":polls,"cycles_after":cycles_after,"log_records":log_records()}));
}
