//! `pbv rx`: the generic PHY receive helpers (`receive_telegram`, `receive_all_telegrams`,
//! `poll_pending_received_bytes`) over the harness buffer PHY and over the repository's
//! SimulatorPhy, fed with sequences of valid telegrams split into arbitrary chunks (C16).
use crate::codec::{tel_json, DataSpec};
use crate::util::*;
use crate::vbus::BufPhy;
use profirust::fdl;
use profirust::phy::{ProfibusPhy, SimulatorPhy};
use profirust::time::Instant;
use rand::{Rng, SeedableRng};
use serde_json::{json, Value};

fn rand_frame(rng: &mut impl Rng, maxlen: usize) -> Vec<u8> {
    match rng.gen_range(0..10) {
        0 => vec![0xE5],
        1 | 2 => vec![0xDC, rng.gen_range(0..127), rng.gen_range(0..127)],
        _ => {
            let fcs = crate::codec::all_fc();
            let dsap = if rng.gen_bool(0.3) { Some(rng.gen_range(0..64)) } else { None };
            let ssap = if rng.gen_bool(0.3) { Some(rng.gen_range(0..64)) } else { None };
            let n = match rng.gen_range(0..6) {
                0 => 0,
                1 => 8 - dsap.is_some() as usize - ssap.is_some() as usize,
                2 => rng.gen_range(0..=maxlen.min(244)),
                _ => rng.gen_range(0..12),
            };
            let sp = DataSpec { da: rng.gen_range(0..127), sa: rng.gen_range(0..127), dsap, ssap, fc: fcs[rng.gen_range(0..fcs.len())], pdu: (0..n).map(|_| rng.gen()).collect() };
            let b = sp.encode().map(|x| x.0).unwrap_or(vec![0xE5]);
            // the decoder also accepts the variable-length framing for the lengths the encoder writes
            // as SD1 / SD3: the same telegram framed as SD2 (LE = 3 or 11) is a valid telegram on the wire
            if (b[0] == 0x10 || b[0] == 0xA2) && rng.gen_bool(0.35) {
                let body = &b[1..b.len() - 2];
                let mut o = vec![0x68, body.len() as u8, body.len() as u8, 0x68];
                o.extend_from_slice(body);
                o.extend_from_slice(&b[b.len() - 2..]);
                o
            } else {
                b
            }
        }
    }
}

fn call_one(phy: &mut impl ProfibusPhy, now: Instant) -> Result<Vec<Value>, (String, String)> {
    beat();
    guarded(|| {
        let mut cbs = vec![];
        phy.receive_telegram(now, |t| {
            cbs.push(json!({"last": Value::Null, "t": tel_json(&t, None)}));
        });
        cbs
    })
}
fn call_all(phy: &mut impl ProfibusPhy, now: Instant) -> Result<Vec<Value>, (String, String)> {
    beat();
    guarded(|| {
        let mut cbs = vec![];
        phy.receive_all_telegrams(now, |t, last| {
            cbs.push(json!({"last": last, "t": tel_json(&t, None)}));
        });
        cbs
    })
}

/// one session over the buffer PHY
fn session_buf(log: &mut EvLog, rng: &mut impl Rng, nframes: usize, maxlen: usize, with_junk: bool) {
    let mut phy = BufPhy::new(500_000);
    let mut stream: Vec<u8> = vec![];
    let mut items: Vec<(bool, Vec<u8>)> = vec![]; // (is_junk, bytes)
    for _ in 0..nframes {
        if with_junk && rng.gen_bool(0.15) {
            let n = rng.gen_range(1..6);
            let mut j: Vec<u8> = (0..n).map(|_| rng.gen()).collect();
            j[0] = [0x00u8, 0x55, 0xFF, 0x17][rng.gen_range(0..4)]; // never a start delimiter
            items.push((true, j));
        } else {
            items.push((false, rand_frame(rng, maxlen)));
        }
    }
    let mut k = 0usize; // next item to put on the stream
    let mut arrived = 0usize;
    let now = Instant::from_micros(1000);
    let mut steps = 0;
    loop {
        steps += 1;
        // queue more of the stream
        if k < items.len() && (stream.len() - arrived < 300) {
            let (junk, b) = items[k].clone();
            // after junk, the next telegram "arrives separately": the junk must have been read first
            if junk {
                log.push(json!({"ev":"Junk","b":b}));
            } else {
                log.push(json!({"ev":"Send","b":b}));
            }
            stream.extend_from_slice(&b);
            k += 1;
            if junk {
                // deliver the junk completely and let a call discard it before anything else arrives
                let n = stream.len() - arrived;
                phy.rx.extend_from_slice(&stream[arrived..]);
                arrived = stream.len();
                log.push(json!({"ev":"Arrive","n":n}));
                do_call(log, &mut phy, now, rng.gen_bool(0.5));
                // drain whatever a single-telegram call left in front of the junk
                for _ in 0..8 {
                    if phy.rx.is_empty() {
                        break;
                    }
                    do_call(log, &mut phy, now, false);
                }
                continue;
            }
        }
        // a chunk arrives
        if arrived < stream.len() {
            let n = match rng.gen_range(0..4) {
                0 => 1,
                1 => rng.gen_range(1..=40),
                2 => rng.gen_range(1..=3),
                _ => rng.gen_range(1..=300),
            }
            .min(stream.len() - arrived);
            phy.rx.extend_from_slice(&stream[arrived..arrived + n]);
            arrived += n;
            log.push(json!({"ev":"Arrive","n":n}));
        }
        // a call
        if rng.gen_bool(0.8) {
            do_call(log, &mut phy, now, rng.gen_bool(0.5));
        }
        if k >= items.len() && arrived >= stream.len() {
            // drain
            for _ in 0..(nframes + 4) {
                do_call(log, &mut phy, now, rng.gen_bool(0.5));
            }
            break;
        }
        if steps > 100_000 {
            break;
        }
    }
    log.push(json!({"ev":"End"}));
    log.push(json!({"ev":"Reset"}));
}

fn do_call(log: &mut EvLog, phy: &mut BufPhy, now: Instant, one: bool) {
    let pre = phy.rx.clone();
    let r = if one { call_one(phy, now) } else { call_all(phy, now) };
    match r {
        Err((msg, loc)) => log.push(json!({"ev":"Panic","msg":msg,"loc":short_loc(&loc),"during":"rx"})),
        Ok(mut cbs) => {
            if one {
                // receive_telegram has no is_last flag: the field is not judged for this helper
                for c in cbs.iter_mut() {
                    c["last"] = json!(false);
                }
            }
            let pending = phy.poll_pending_received_bytes(now);
            log.push(json!({"ev":"Call","fn": if one {"one"} else {"all"},"pre":pre,"cbs":cbs,"pending":pending}));
        }
    }
}

/// a session over the repository's simulator PHY: one PHY transmits, the other receives while bus
/// time advances in random steps (timed byte availability does the chunking)
fn session_sim(log: &mut EvLog, rng: &mut impl Rng, nframes: usize) {
    let baud = profirust::Baudrate::B19200;
    let mut tx = SimulatorPhy::new(baud, "tx");
    let mut rx = tx.duplicate("rx");
    let mut now = Instant::from_micros(0);
    let mut expected_pending: Vec<u8> = vec![];
    let _ = &mut expected_pending;
    let mut view: Vec<u8> = vec![]; // bytes received but not yet consumed (harness bookkeeping from callbacks)
    // a PHY that joins later (duplicated from the receiver when that has already consumed data) sees the whole
    // stream of the bus from the beginning: its drain at the end is logged as a session of its own
    let join_at = rng.gen_range(1..=nframes);
    let mut late: Option<SimulatorPhy> = None;
    let mut all_frames: Vec<Vec<u8>> = vec![];
    for fi in 0..nframes {
        if fi == join_at - 1 && fi > 0 {
            late = Some(rx.duplicate("late"));
        }
        let f = rand_frame(rng, 40);
        all_frames.push(f.clone());
        // wait until the simulator bus is idle plus the pause it insists on
        now += profirust::time::Duration::from_micros(baud.bits_to_time(11 * 300 + 40).total_micros());
        tx.set_bus_time(now);
        // drain everything that is pending from earlier frames first
        loop {
            let pre_n = rx.poll_pending_received_bytes(now);
            if pre_n == 0 {
                break;
            }
            let pre = rx.receive_data(now, |b| (0, b.to_vec()));
            match call_all(&mut rx, now) {
                Ok(cbs) => {
                    let pending = rx.poll_pending_received_bytes(now);
                    log.push(json!({"ev":"Call","fn":"all","pre":pre,"cbs":cbs,"pending":pending}));
                }
                Err((msg, loc)) => {
                    log.push(json!({"ev":"Panic","msg":msg,"loc":short_loc(&loc),"during":"rx"}));
                    return;
                }
            }
        }
        beat();
        let fl = f.clone();
        tx.transmit_data(now, |b| {
            b[..fl.len()].copy_from_slice(&fl);
            (fl.len(), ())
        });
        log.push(json!({"ev":"Send","b":f}));
        // advance time in random steps; the receiver polls at each step
        let total_us = baud.bits_to_time(11 * f.len() as u32 + 5).total_micros() as i64;
        let mut t = 0i64;
        let mut seen = view.len();
        while t < total_us {
            t += rng.gen_range(1..(total_us / 2).max(2));
            let tn = now + profirust::time::Duration::from_micros(t.min(total_us) as u64);
            tx.set_bus_time(tn);
            let pre = rx.receive_data(tn, |b| (0, b.to_vec()));
            if pre.len() > seen {
                log.push(json!({"ev":"Arrive","n":pre.len() - seen}));
            }
            let one = rng.gen_bool(0.5);
            let r = if one { call_one(&mut rx, tn) } else { call_all(&mut rx, tn) };
            match r {
                Ok(mut cbs) => {
                    if one {
                        // receive_telegram has no is_last flag: the field is not judged for this helper
                        for c in cbs.iter_mut() {
                            c["last"] = json!(false);
                        }
                    }
                    let pending = rx.poll_pending_received_bytes(tn);
                    seen = pending;
                    log.push(json!({"ev":"Call","fn": if one {"one"} else {"all"},"pre":pre,"cbs":cbs,"pending":pending}));
                }
                Err((msg, loc)) => {
                    log.push(json!({"ev":"Panic","msg":msg,"loc":short_loc(&loc),"during":"rx"}));
                    return;
                }
            }
        }
        now = now + profirust::time::Duration::from_micros(total_us as u64);
        view.clear();
        view.resize(seen, 0);
    }
    // final drain
    now += profirust::time::Duration::from_micros(100_000);
    tx.set_bus_time(now);
    for _ in 0..4 {
        let pre = rx.receive_data(now, |b| (0, b.to_vec()));
        if let Ok(cbs) = call_all(&mut rx, now) {
            let pending = rx.poll_pending_received_bytes(now);
            log.push(json!({"ev":"Call","fn":"all","pre":pre,"cbs":cbs,"pending":pending}));
        }
    }
    log.push(json!({"ev":"End"}));
    log.push(json!({"ev":"Reset"}));
    if let Some(mut late) = late {
        let mut total = 0usize;
        for f in all_frames.iter() {
            log.push(json!({"ev":"Send","b":f}));
            total += f.len();
        }
        log.push(json!({"ev":"Arrive","n":total}));
        for _ in 0..(all_frames.len() + 3) {
            let pre = late.receive_data(now, |b| (0, b.to_vec()));
            if pre.is_empty() {
                break;
            }
            match call_all(&mut late, now) {
                Ok(cbs) => {
                    let pending = late.poll_pending_received_bytes(now);
                    log.push(json!({"ev":"Call","fn":"all","pre":pre,"cbs":cbs,"pending":pending}));
                }
                Err((msg, loc)) => {
                    log.push(json!({"ev":"Panic","msg":msg,"loc":short_loc(&loc),"during":"rx-late"}));
                    break;
                }
            }
        }
        log.push(json!({"ev":"End"}));
        log.push(json!({"ev":"Reset"}));
    }
}

pub fn run(args: &Args) {
    let out = args.str("out", "/dev/stdout");
    let seed: u64 = args.num("seed", 1);
    let sessions: usize = args.num("runs", 50);
    let thorough = args.str("tier", "quick") == "thorough";
    let mut log = EvLog::create(&out);
    let mut rng = rand::rngs::StdRng::seed_from_u64(seed);
    for i in 0..sessions {
        let nf = rng.gen_range(1..8);
        match i % 5 {
            0 => session_sim(&mut log, &mut rng, if thorough { 12 } else { 6 }),
            1 => session_buf(&mut log, &mut rng, nf, 244, true),
            _ => session_buf(&mut log, &mut rng, nf, if i % 2 == 0 { 244 } else { 20 }, false),
        }
    }
    log.flush();
    eprintln!("rx: {} events", log.count);
}
