//! Byte-accurate virtual bus (DESIGN §4.1).  A transmission is (start tick, sender, bytes); byte k
//! becomes receivable at start + ceil((k+1)*11*12e6/baud) ticks (1 tick = 1/12 us).  The sender
//! never sees its own bytes.  Overlapping transmissions are recorded as collisions and garble
//! the overlapping telegrams for every listener.  Per-telegram / per-receiver faults: drop,
//! garble, truncate.
use crate::util::TPU;
use profirust::phy::ProfibusPhy;
use profirust::time::Instant;
use std::cell::RefCell;
use std::rc::Rc;

#[derive(Clone, Copy, Debug, PartialEq, Eq)]
pub enum FaultKind {
    Drop,
    Garble,
    Truncate,
}

#[derive(Clone, Debug)]
pub struct Fault {
    pub kind: FaultKind,
    /// receiver id the fault applies to (None = all receivers)
    pub rcv: Option<usize>,
}

pub struct TxRec {
    pub start: i64,
    pub sender: usize,
    pub bytes: Vec<u8>,
    pub baud: i64,
    pub collided: bool,
    pub fault: Option<Fault>,
    /// env transmissions (reference slaves, scripted peers) are not judged by the rules
    pub env: bool,
}

pub fn byte_ticks(baud: i64, nbytes: i64) -> i64 {
    (nbytes * 11 * 12_000_000 + baud - 1) / baud
}
pub fn bit_ticks_floor(baud: i64, nbits: i64) -> i64 {
    nbits * 12_000_000 / baud
}

impl TxRec {
    pub fn end(&self) -> i64 {
        self.start + byte_ticks(self.baud, self.bytes.len() as i64)
    }
    pub fn avail(&self, k: usize) -> i64 {
        self.start + byte_ticks(self.baud, k as i64 + 1)
    }
}

pub struct Bus {
    pub txs: Vec<TxRec>,
    pub baud: i64,
    pub collisions: usize,
    /// faults waiting to be applied to the next transmission starting at or after the tick
    pub fault_plan: Vec<(i64, Fault)>,
    /// faults to apply to the n-th transmission (index into txs)
    pub fault_at: std::collections::HashMap<usize, Fault>,
    pub applied_faults: Vec<(usize, Fault)>,
}

impl Bus {
    pub fn new(baud: i64) -> Rc<RefCell<Bus>> {
        Rc::new(RefCell::new(Bus { txs: vec![], baud, collisions: 0, fault_plan: vec![], fault_at: Default::default(), applied_faults: vec![] }))
    }
    pub fn last_end(&self) -> i64 {
        self.txs.iter().rev().take(4).map(|t| t.end()).max().unwrap_or(0)
    }
    /// Put a transmission on the bus (used by VPhy and by environment actors).
    pub fn transmit(&mut self, start: i64, sender: usize, bytes: Vec<u8>, env: bool) -> i64 {
        let idx = self.txs.len();
        let mut collided = false;
        for t in self.txs.iter_mut().rev().take(4) {
            if t.end() > start {
                t.collided = true;
                collided = true;
            }
        }
        if collided {
            self.collisions += 1;
        }
        let mut fault = self.fault_at.remove(&idx);
        if fault.is_none() {
            if let Some(pos) = self.fault_plan.iter().position(|f| f.0 <= start) {
                fault = Some(self.fault_plan.remove(pos).1);
            }
        }
        if let Some(f) = &fault {
            self.applied_faults.push((idx, f.clone()));
        }
        let rec = TxRec { start, sender, bytes, baud: self.baud, collided, fault, env };
        let end = rec.end();
        self.txs.push(rec);
        end
    }
    /// Cut the transmission of `sender` that is in progress at `now` (station crash mid-telegram).
    pub fn cut(&mut self, sender: usize, now: i64) -> bool {
        if let Some(l) = self.txs.last_mut() {
            if l.sender == sender && l.end() > now {
                let done = ((now - l.start).max(0) * l.baud / (11 * 12_000_000)) as usize;
                l.bytes.truncate(done.max(1));
                return true;
            }
        }
        false
    }
}

pub struct VPhy {
    pub bus: Rc<RefCell<Bus>>,
    pub id: usize,
    cur_tx: usize,
    cur_byte: usize,
    pub buf: Vec<u8>,
    pub own_end: i64,
    /// deliver at most this many new bytes per receive call (USB-serial style chunking); 0 = all
    pub chunk: usize,
    pub ntx: usize,
}

impl VPhy {
    pub fn new(bus: Rc<RefCell<Bus>>, id: usize) -> Self {
        let cur_tx = bus.borrow().txs.len();
        VPhy { bus, id, cur_tx, cur_byte: 0, buf: vec![], own_end: 0, chunk: 0, ntx: 0 }
    }
    /// Forget everything received so far and start listening from now (power cycle of the PHY).
    pub fn reset(&mut self, now: i64) {
        self.buf.clear();
        let bus = self.bus.borrow();
        self.cur_tx = bus.txs.len();
        self.cur_byte = 0;
        // a transmission in progress is heard from its current byte on
        if let Some(l) = bus.txs.last() {
            if l.end() > now && l.sender != self.id {
                self.cur_tx = bus.txs.len() - 1;
                // the character in progress is lost
                self.cur_byte = ((now - l.start).max(0) * l.baud / (11 * 12_000_000)) as usize + 1;
            }
        }
        self.own_end = 0;
    }
    fn pull(&mut self, now: i64) {
        let bus = self.bus.borrow();
        let mut budget = if self.chunk == 0 { usize::MAX } else { self.chunk };
        while self.cur_tx < bus.txs.len() {
            let t = &bus.txs[self.cur_tx];
            if t.sender == self.id {
                self.cur_tx += 1;
                self.cur_byte = 0;
                continue;
            }
            let flt = t.fault.as_ref().filter(|f| f.rcv.is_none() || f.rcv == Some(self.id)).map(|f| f.kind);
            while self.cur_byte < t.bytes.len() && t.avail(self.cur_byte) <= now && budget > 0 {
                let b = t.bytes[self.cur_byte];
                let b = if t.collided { b ^ 0xA5 } else { b };
                match flt {
                    Some(FaultKind::Drop) => {}
                    Some(FaultKind::Garble) => self.buf.push(b ^ 0x55),
                    Some(FaultKind::Truncate) => {
                        if self.cur_byte < (t.bytes.len() + 1) / 2 {
                            self.buf.push(b);
                        }
                    }
                    None => self.buf.push(b),
                }
                if flt != Some(FaultKind::Drop) {
                    budget -= 1;
                }
                self.cur_byte += 1;
            }
            if self.cur_byte >= t.bytes.len() {
                self.cur_tx += 1;
                self.cur_byte = 0;
            } else {
                break;
            }
        }
    }
}

impl ProfibusPhy for VPhy {
    fn poll_transmission(&mut self, now: Instant) -> bool {
        now.total_micros() * TPU < self.own_end
    }
    fn transmit_data<F, R>(&mut self, now: Instant, f: F) -> R
    where
        F: FnOnce(&mut [u8]) -> (usize, R),
    {
        let mut b = vec![0u8; 256];
        let (n, r) = f(&mut b);
        if n > 0 {
            b.truncate(n);
            let start = now.total_micros() * TPU;
            self.own_end = self.bus.borrow_mut().transmit(start, self.id, b, false);
            self.ntx += 1;
        }
        r
    }
    fn receive_data<F, R>(&mut self, now: Instant, f: F) -> R
    where
        F: FnOnce(&[u8]) -> (usize, R),
    {
        self.pull(now.total_micros() * TPU);
        let (d, r) = f(&self.buf);
        assert!(d <= self.buf.len(), "harness: attempt to drop more bytes than pending");
        self.buf.drain(..d);
        r
    }
}

/// Simple PHY over an explicit byte buffer (C16 and byte-level fuzzing): bytes are pushed by the
/// driver, transmissions are collected.
pub struct BufPhy {
    pub rx: Vec<u8>,
    pub tx: Vec<Vec<u8>>,
    pub busy_until: i64,
    pub baud: i64,
}
impl BufPhy {
    pub fn new(baud: i64) -> Self {
        BufPhy { rx: vec![], tx: vec![], busy_until: 0, baud }
    }
}
impl ProfibusPhy for BufPhy {
    fn poll_transmission(&mut self, now: Instant) -> bool {
        now.total_micros() * TPU < self.busy_until
    }
    fn transmit_data<F, R>(&mut self, now: Instant, f: F) -> R
    where
        F: FnOnce(&mut [u8]) -> (usize, R),
    {
        let mut b = vec![0u8; 256];
        let (n, r) = f(&mut b);
        if n > 0 {
            b.truncate(n);
            self.busy_until = now.total_micros() * TPU + byte_ticks(self.baud, n as i64);
            self.tx.push(b);
        }
        r
    }
    fn receive_data<F, R>(&mut self, _now: Instant, f: F) -> R
    where
        F: FnOnce(&[u8]) -> (usize, R),
    {
        let (d, r) = f(&self.rx);
        assert!(d <= self.rx.len(), "harness: attempt to drop more bytes than pending");
        self.rx.drain(..d);
        r
    }
}
