//! Common helpers: event log, panic capture, formatting logger, argument parsing.
use std::cell::RefCell;
use std::io::Write;
use std::sync::Mutex;

/// Ticks per microsecond (trace time unit = 1/12 us, DESIGN §4.3).
pub const TPU: i64 = 12;

// ---------------------------------------------------------------- event log
pub struct EvLog {
    out: Box<dyn Write>,
    pub count: usize,
}

impl EvLog {
    pub fn create(path: &str) -> Self {
        let f = std::fs::File::create(path).unwrap_or_else(|e| panic!("cannot create {path}: {e}"));
        EvLog { out: Box::new(std::io::BufWriter::with_capacity(1 << 20, f)), count: 0 }
    }
    pub fn sink() -> Self {
        EvLog { out: Box::new(std::io::sink()), count: 0 }
    }
    pub fn push(&mut self, v: serde_json::Value) {
        serde_json::to_writer(&mut self.out, &v).unwrap();
        self.out.write_all(b"\n").unwrap();
        self.count += 1;
    }
    pub fn flush(&mut self) {
        self.out.flush().unwrap();
    }
}

// ---------------------------------------------------------------- panic capture
thread_local! {
    static LAST_PANIC: RefCell<Option<(String, String)>> = RefCell::new(None);
    static IN_GUARD: RefCell<u32> = RefCell::new(0);
}

pub fn install_panic_hook() {
    std::panic::set_hook(Box::new(|info| {
        let msg = if let Some(s) = info.payload().downcast_ref::<&str>() {
            s.to_string()
        } else if let Some(s) = info.payload().downcast_ref::<String>() {
            s.clone()
        } else {
            "<non-string panic>".to_string()
        };
        let loc = info.location().map(|l| format!("{}:{}", l.file(), l.line())).unwrap_or_default();
        if IN_GUARD.with(|g| *g.borrow()) == 0 {
            eprintln!("harness panic (outside the code under test): {msg} at {loc}");
        }
        LAST_PANIC.with(|p| *p.borrow_mut() = Some((msg, loc)));
    }));
}

/// Run `f`; a panic inside is data: returns Err((message, location)).
pub fn guarded<R>(f: impl FnOnce() -> R) -> Result<R, (String, String)> {
    IN_GUARD.with(|g| *g.borrow_mut() += 1);
    let r = std::panic::catch_unwind(std::panic::AssertUnwindSafe(f));
    IN_GUARD.with(|g| *g.borrow_mut() -= 1);
    match r {
        Ok(r) => Ok(r),
        Err(_) => Err(LAST_PANIC.with(|p| p.borrow_mut().take()).unwrap_or(("?".into(), "?".into()))),
    }
}

/// Location with the `/repo/` prefix stripped and only file:line kept.
pub fn short_loc(loc: &str) -> String {
    loc.trim_start_matches("/repo/").to_string()
}

// ---------------------------------------------------------------- logger that formats every record
pub struct FmtLogger {
    ring: Mutex<(Vec<String>, usize, u64)>,
}
static LOGGER: FmtLogger = FmtLogger { ring: Mutex::new((Vec::new(), 0, 0)) };

impl log::Log for FmtLogger {
    fn enabled(&self, _: &log::Metadata) -> bool {
        true
    }
    fn log(&self, record: &log::Record) {
        // Formatting evaluates all argument expressions (C05: "a logger that formats every record").
        let s = format!("{} {}: {}", record.level(), record.target(), record.args());
        let mut g = self.ring.lock().unwrap_or_else(|e| e.into_inner());
        g.2 += 1;
        if g.0.len() < 64 {
            g.0.push(s);
        } else {
            let i = g.1 % 64;
            g.0[i] = s;
        }
        g.1 += 1;
    }
    fn flush(&self) {}
}

pub fn install_logger() {
    let _ = log::set_logger(&LOGGER);
    log::set_max_level(log::LevelFilter::Trace);
}

pub fn log_records() -> u64 {
    LOGGER.ring.lock().unwrap_or_else(|e| e.into_inner()).2
}

// ---------------------------------------------------------------- hang watchdog
use std::sync::atomic::{AtomicU64, Ordering};
static HEARTBEAT: AtomicU64 = AtomicU64::new(0);
static WATCH_CTX: Mutex<String> = Mutex::new(String::new());

/// Call before every public call into the code under test.
pub fn beat() {
    HEARTBEAT.fetch_add(1, Ordering::Relaxed);
}
pub fn set_ctx(s: &str) {
    let mut g = WATCH_CTX.lock().unwrap_or_else(|e| e.into_inner());
    g.clear();
    g.push_str(s);
}

/// Start a watchdog: if no heartbeat for `secs` wall-clock seconds the process prints a HANG
/// record to `hang_path` and exits with status 3 (the orchestrator turns this into a `Hang` event).
pub fn start_watchdog(secs: u64, hang_path: String) {
    std::thread::spawn(move || {
        let mut last = HEARTBEAT.load(Ordering::Relaxed);
        let mut idle = 0;
        loop {
            std::thread::sleep(std::time::Duration::from_millis(250));
            let cur = HEARTBEAT.load(Ordering::Relaxed);
            if cur == last {
                idle += 1;
            } else {
                idle = 0;
                last = cur;
            }
            if idle as u64 >= secs * 4 {
                let ctx = WATCH_CTX.lock().unwrap_or_else(|e| e.into_inner()).clone();
                let _ = std::fs::write(&hang_path, format!("{{\"ev\":\"Hang\",\"ctx\":{}}}\n", serde_json::to_string(&ctx).unwrap()));
                std::process::exit(3);
            }
        }
    });
}

// ---------------------------------------------------------------- args
pub struct Args {
    kv: std::collections::HashMap<String, String>,
    pub pos: Vec<String>,
}
impl Args {
    pub fn parse(it: impl Iterator<Item = String>) -> Self {
        let mut kv = std::collections::HashMap::new();
        let mut pos = vec![];
        let v: Vec<String> = it.collect();
        let mut i = 0;
        while i < v.len() {
            if let Some(k) = v[i].strip_prefix("--") {
                if let Some((a, b)) = k.split_once('=') {
                    kv.insert(a.to_string(), b.to_string());
                } else if i + 1 < v.len() && !v[i + 1].starts_with("--") {
                    kv.insert(k.to_string(), v[i + 1].clone());
                    i += 1;
                } else {
                    kv.insert(k.to_string(), "true".to_string());
                }
            } else {
                pos.push(v[i].clone());
            }
            i += 1;
        }
        Args { kv, pos }
    }
    pub fn get(&self, k: &str) -> Option<&str> {
        self.kv.get(k).map(|s| s.as_str())
    }
    pub fn str(&self, k: &str, d: &str) -> String {
        self.get(k).unwrap_or(d).to_string()
    }
    pub fn num<T: std::str::FromStr>(&self, k: &str, d: T) -> T {
        self.get(k).and_then(|s| s.parse().ok()).unwrap_or(d)
    }
    pub fn flag(&self, k: &str) -> bool {
        self.get(k).map(|s| s != "false" && s != "0").unwrap_or(false)
    }
}
