//! Driver for C09 / C10: records calls of the real encoder / decoder (`Call` records of DESIGN §4.3,
//! here specialised as Enc / FcV / FcB / Chain / Dec / Sub events) for validation by TraceCodec.tla.
use crate::util::*;
use profirust::fdl;
use rand::{Rng, SeedableRng};
use serde_json::{json, Value};

// ---- the harness' own mapping of the API enums to wire-level numbers (not `as u8`, not to_byte)
pub fn rt_code(r: fdl::RequestType) -> u32 {
    use fdl::RequestType::*;
    match r {
        ClockValue => 128,
        TimeEvent => 0,
        SdaLow => 3,
        SdnLow => 4,
        SdaHigh => 5,
        SdnHigh => 6,
        MulticastSrd => 7,
        FdlStatus => 9,
        SrdLow => 12,
        SrdHigh => 13,
        Ident => 14,
        LsapStatus => 15,
    }
}
pub const ALL_RT: [fdl::RequestType; 12] = [
    fdl::RequestType::ClockValue,
    fdl::RequestType::TimeEvent,
    fdl::RequestType::SdaLow,
    fdl::RequestType::SdnLow,
    fdl::RequestType::SdaHigh,
    fdl::RequestType::SdnHigh,
    fdl::RequestType::MulticastSrd,
    fdl::RequestType::FdlStatus,
    fdl::RequestType::SrdLow,
    fdl::RequestType::SrdHigh,
    fdl::RequestType::Ident,
    fdl::RequestType::LsapStatus,
];
pub const ALL_FCB: [fdl::FrameCountBit; 4] =
    [fdl::FrameCountBit::First, fdl::FrameCountBit::High, fdl::FrameCountBit::Low, fdl::FrameCountBit::Inactive];
pub const ALL_STATE: [fdl::ResponseState; 4] = [
    fdl::ResponseState::Slave,
    fdl::ResponseState::MasterNotReady,
    fdl::ResponseState::MasterWithoutToken,
    fdl::ResponseState::MasterInRing,
];
pub const ALL_STATUS: [fdl::ResponseStatus; 9] = [
    fdl::ResponseStatus::Ok,
    fdl::ResponseStatus::UserError,
    fdl::ResponseStatus::NoResources,
    fdl::ResponseStatus::SapNotEnabled,
    fdl::ResponseStatus::DataLow,
    fdl::ResponseStatus::NoDataReady,
    fdl::ResponseStatus::DataHigh,
    fdl::ResponseStatus::NotReceivedDataLow,
    fdl::ResponseStatus::NotReceivedDataHigh,
];
pub fn fcb_bits(f: fdl::FrameCountBit) -> (u32, u32) {
    // (fcv, fcb)
    match f {
        fdl::FrameCountBit::First => (0, 1),
        fdl::FrameCountBit::High => (1, 1),
        fdl::FrameCountBit::Low => (1, 0),
        fdl::FrameCountBit::Inactive => (0, 0),
    }
}
pub fn state_code(s: fdl::ResponseState) -> u32 {
    match s {
        fdl::ResponseState::Slave => 0,
        fdl::ResponseState::MasterNotReady => 1,
        fdl::ResponseState::MasterWithoutToken => 2,
        fdl::ResponseState::MasterInRing => 3,
    }
}
pub fn status_code(s: fdl::ResponseStatus) -> u32 {
    use fdl::ResponseStatus::*;
    match s {
        Ok => 0,
        UserError => 1,
        NoResources => 2,
        SapNotEnabled => 3,
        DataLow => 8,
        NoDataReady => 9,
        DataHigh => 10,
        NotReceivedDataLow => 12,
        NotReceivedDataHigh => 13,
    }
}
pub fn fc_json(fc: fdl::FunctionCode) -> Value {
    match fc {
        fdl::FunctionCode::Request { fcb, req } => {
            let (v, b) = fcb_bits(fcb);
            json!({"k":"req","fcv":v,"fcb":b,"rt":rt_code(req)})
        }
        fdl::FunctionCode::Response { state, status } => {
            json!({"k":"resp","state":state_code(state),"status":status_code(status)})
        }
    }
}
pub fn all_fc() -> Vec<fdl::FunctionCode> {
    let mut v = vec![];
    for r in ALL_RT {
        for f in ALL_FCB {
            v.push(fdl::FunctionCode::Request { fcb: f, req: r });
        }
    }
    for s in ALL_STATE {
        for st in ALL_STATUS {
            v.push(fdl::FunctionCode::Response { state: s, status: st });
        }
    }
    v
}
fn sap_json(s: Option<u8>) -> i32 {
    s.map(|x| x as i32).unwrap_or(-1)
}

/// Decode `buf` with the real decoder and describe the verdict; the payload is reported by its
/// position inside `buf` (pointer arithmetic: "lies inside the input" is checked literally).
pub fn decode_json(buf: &[u8]) -> Value {
    beat();
    match guarded(|| fdl::Telegram::deserialize(buf).map(|r| r.map(|(t, n)| (tel_json(&t, Some(buf)), n)))) {
        Err((msg, loc)) => json!({"r":"panic","msg":msg,"loc":short_loc(&loc)}),
        Ok(None) => json!({"r":"more"}),
        Ok(Some(Err(()))) => json!({"r":"rej"}),
        Ok(Some(Ok((t, n)))) => json!({"r":"ok","n":n,"t":t}),
    }
}

/// JSON of a decoded telegram. With `base` the payload is given as (off,len) relative to the
/// buffer, otherwise written out.
pub fn tel_json(t: &fdl::Telegram, base: Option<&[u8]>) -> Value {
    match t {
        fdl::Telegram::Token(tt) => json!({"k":"token","da":tt.da,"sa":tt.sa}),
        fdl::Telegram::ShortConfirmation(_) => json!({"k":"sc"}),
        fdl::Telegram::Data(d) => {
            let mut v = json!({"k":"data","da":d.h.da,"sa":d.h.sa,"dsap":sap_json(d.h.dsap),"ssap":sap_json(d.h.ssap),"fc":fc_json(d.h.fc)});
            match base {
                Some(b) => {
                    let off = (d.pdu.as_ptr() as isize) - (b.as_ptr() as isize);
                    v["off"] = json!(off);
                    v["len"] = json!(d.pdu.len());
                }
                None => {
                    v["pdu"] = json!(d.pdu);
                }
            }
            v
        }
    }
}

#[derive(Clone, Debug)]
pub struct DataSpec {
    pub da: u8,
    pub sa: u8,
    pub dsap: Option<u8>,
    pub ssap: Option<u8>,
    pub fc: fdl::FunctionCode,
    pub pdu: Vec<u8>,
}
impl DataSpec {
    pub fn le(&self) -> usize {
        self.pdu.len() + 3 + self.dsap.is_some() as usize + self.ssap.is_some() as usize
    }
    pub fn json(&self) -> Value {
        json!({"k":"data","da":self.da,"sa":self.sa,"dsap":sap_json(self.dsap),"ssap":sap_json(self.ssap),"fc":fc_json(self.fc),"pdu":self.pdu})
    }
    /// Encode with the real encoder; returns (buffer contents up to n, reported n) or a panic.
    pub fn encode(&self) -> Result<(Vec<u8>, usize), (String, String)> {
        beat();
        guarded(|| {
            let mut buf = vec![0xAAu8; 300];
            let n = {
                let tx = fdl::TelegramTx::new(&mut buf);
                let pdu = &self.pdu;
                tx.send_data_telegram(
                    fdl::DataTelegramHeader { da: self.da, sa: self.sa, dsap: self.dsap, ssap: self.ssap, fc: self.fc },
                    pdu.len(),
                    |b| b.copy_from_slice(pdu),
                )
                .bytes_sent()
            };
            buf.truncate(n.min(300));
            (buf, n)
        })
    }
}

fn emit_enc(log: &mut EvLog, t: Value, enc: Result<(Vec<u8>, usize), (String, String)>) -> Option<Vec<u8>> {
    match enc {
        Err((msg, loc)) => {
            log.push(json!({"ev":"Panic","during":"enc","msg":msg,"loc":short_loc(&loc),"t":t}));
            None
        }
        Ok((bytes, n)) => {
            let dec = decode_json(&bytes);
            let mut ext = bytes.clone();
            ext.extend_from_slice(&[0x10, 0xE5, 0x00]);
            let mut decx = decode_json(&ext);
            // positions are relative to the buffer start in both cases
            if decx["r"] == "ok" && dec["r"] == "ok" {
                decx = decx.clone();
            }
            log.push(json!({"ev":"Enc","t":t,"bytes":bytes,"n":n,"dec":dec,"decx":decx}));
            Some(bytes)
        }
    }
}

fn chain(log: &mut EvLog, bytes: &[u8], ks: impl Iterator<Item = usize>) {
    log.push(json!({"ev":"Chain","bytes":bytes}));
    for k in ks {
        log.push(json!({"ev":"Dec","k":k,"r":decode_json(&bytes[..k])}));
    }
}

fn subst_all(log: &mut EvLog, frame: &[u8], vals: &[u8]) {
    log.push(json!({"ev":"Chain","bytes":frame}));
    let mut m = frame.to_vec();
    for pos in 0..frame.len() {
        for &v in vals {
            if v == frame[pos] {
                continue;
            }
            m[pos] = v;
            log.push(json!({"ev":"Sub","pos":pos,"val":v,"r":decode_json(&m)}));
        }
        m[pos] = frame[pos];
    }
}

fn rand_spec(rng: &mut impl Rng, maxlen: usize) -> DataSpec {
    let fcs = all_fc();
    let sapv = [0u8, 1, 50, 51, 54, 55, 56, 57, 58, 59, 60, 61, 62, 255];
    let dsap = if rng.gen_bool(0.5) { Some(sapv[rng.gen_range(0..sapv.len())]) } else { None };
    let ssap = if rng.gen_bool(0.5) { Some(sapv[rng.gen_range(0..sapv.len())]) } else { None };
    let room = 246 - dsap.is_some() as usize - ssap.is_some() as usize;
    let n = rng.gen_range(0..=maxlen.min(room));
    DataSpec {
        da: rng.gen_range(0..128),
        sa: rng.gen_range(0..128),
        dsap,
        ssap,
        fc: fcs[rng.gen_range(0..fcs.len())],
        pdu: (0..n).map(|_| rng.gen()).collect(),
    }
}

pub fn run(args: &Args) {
    let out = args.str("out", "/dev/stdout");
    let seed: u64 = args.num("seed", 1);
    let part = args.str("part", "all");
    let thorough = args.str("tier", "quick") == "thorough";
    let mut log = EvLog::create(&out);
    let mut rng = rand::rngs::StdRng::seed_from_u64(seed);
    let want = |p: &str| part == "all" || part == p;

    // ------------------------------------------------ function codes (all values, all bytes)
    if want("fc") {
        for fc in all_fc() {
            beat();
            let r = guarded(|| {
                let b = fc.to_byte();
                (b, fdl::FunctionCode::from_byte(b))
            });
            match r {
                Ok((b, back)) => log.push(json!({"ev":"FcV","fc":fc_json(fc),"b":b,
                    "back": back.map(fc_json).unwrap_or(json!({"k":"invalid"}))})),
                Err((msg, loc)) => log.push(json!({"ev":"Panic","during":"enc","msg":msg,"loc":short_loc(&loc)})),
            }
        }
        for b in 0..=255u8 {
            beat();
            let r = guarded(|| {
                let r = fdl::FunctionCode::from_byte(b);
                let r2 = r.ok().map(|fc| fdl::FunctionCode::from_byte(fc.to_byte()));
                (r, r2)
            });
            match r {
                Ok((r, r2)) => {
                    let j = |x: Result<fdl::FunctionCode, _>| x.map(fc_json).unwrap_or(json!({"k":"invalid"}));
                    log.push(json!({"ev":"FcB","b":b,"r":j(r),"r2": r2.map(j).unwrap_or(json!({"k":"invalid"}))}));
                }
                Err((msg, loc)) => log.push(json!({"ev":"Panic","during":"dec","msg":msg,"loc":short_loc(&loc)})),
            }
        }
    }

    // ------------------------------------------------ C09: structural grid + random telegrams
    let mut frames: Vec<Vec<u8>> = vec![];
    if want("enc") {
        // tokens and SC
        for &(da, sa) in &[(0u8, 0u8), (1, 2), (125, 0), (126, 127), (255, 255), (2, 200)] {
            beat();
            let r = guarded(|| {
                let mut buf = vec![0xAAu8; 300];
                let n = fdl::TelegramTx::new(&mut buf).send_token_telegram(da, sa).bytes_sent();
                buf.truncate(n.min(300));
                (buf, n)
            });
            emit_enc(&mut log, json!({"k":"token","da":da,"sa":sa}), r);
        }
        if thorough {
            for da in 0..=255u8 {
                let sa = da.wrapping_mul(7).wrapping_add(3);
                let r = guarded(|| {
                    let mut buf = vec![0xAAu8; 300];
                    let n = fdl::TelegramTx::new(&mut buf).send_token_telegram(da, sa).bytes_sent();
                    buf.truncate(n.min(300));
                    (buf, n)
                });
                emit_enc(&mut log, json!({"k":"token","da":da,"sa":sa}), r);
            }
        }
        {
            let r = guarded(|| {
                let mut buf = vec![0xAAu8; 300];
                let n = fdl::TelegramTx::new(&mut buf).send_short_confirmation().bytes_sent();
                buf.truncate(n.min(300));
                (buf, n)
            });
            if let Some(b) = emit_enc(&mut log, json!({"k":"sc"}), r) {
                frames.push(b);
            }
        }
        // structural grid: every fc x SAP presence x boundary lengths, addresses from the boundary set
        let addrs = [0u8, 1, 2, 63, 125, 126, 127];
        let saps: [Option<u8>; 5] = [None, Some(0), Some(50), Some(62), Some(255)];
        let lens: Vec<usize> = if thorough { (0..=12).chain([100, 200, 240, 241, 242, 243, 244, 245, 246]).collect() } else { vec![0, 1, 7, 8, 9, 243, 244, 245, 246] };
        let mut k = 0usize;
        for fc in all_fc() {
            for (i, ds) in saps.iter().enumerate() {
                for (j, ss) in saps.iter().enumerate() {
                    if !thorough && (i + j + k) % 3 != 0 {
                        continue; // quick: a third of the SAP combinations per function code, rotating
                    }
                    for &n in &lens {
                        let sp = DataSpec {
                            da: addrs[k % addrs.len()],
                            sa: addrs[(k / 7) % addrs.len()],
                            dsap: *ds,
                            ssap: *ss,
                            fc,
                            pdu: (0..n).map(|_| rng.gen()).collect(),
                        };
                        k += 1;
                        if sp.le() > 249 {
                            continue; // beyond the frame limit: not "a telegram the stack can build"
                        }
                        if !thorough && n > 9 && k % 4 != 0 {
                            continue;
                        }
                        if let Some(b) = emit_enc(&mut log, sp.json(), sp.encode()) {
                            if b.len() <= 24 && frames.len() < 4000 {
                                frames.push(b);
                            }
                        }
                    }
                }
            }
        }
        // random telegrams over the full space
        let nrand = if thorough { 60000 } else { 1500 };
        for i in 0..nrand {
            let sp = rand_spec(&mut rng, if i % 5 == 0 { 246 } else { 24 });
            if sp.le() > 249 {
                continue;
            }
            if let Some(b) = emit_enc(&mut log, sp.json(), sp.encode()) {
                if frames.len() < 4000 {
                    frames.push(b);
                }
            }
        }
    }
    if frames.is_empty() {
        // parts "dec"/"sub" need valid frames even when "enc" was not recorded
        for i in 0..400 {
            let sp = rand_spec(&mut rng, if i % 5 == 0 { 246 } else { 24 });
            if sp.le() <= 249 {
                if let Ok((b, _)) = sp.encode() {
                    frames.push(b);
                }
            }
        }
        frames.push(vec![0xE5]);
    }

    // ------------------------------------------------ C10: short strings, prefix chains, damaged headers
    if want("dec") {
        chain(&mut log, &[], 0..=0);
        let firsts: Vec<u8> = if thorough { (0..=255).collect() } else { vec![0x10, 0x68, 0xA2, 0xDC, 0xE5, 0x16, 0x00, 0xFF] };
        for a in 0..=255u8 {
            if firsts.contains(&a) {
                for b in 0..=255u8 {
                    chain(&mut log, &[a, b], 0..=2);
                }
            } else {
                chain(&mut log, &[a], 0..=1);
            }
        }
        // all three-byte strings over the delimiter alphabet (tokens complete at 3)
        let alpha = [0x10u8, 0x68, 0xA2, 0xDC, 0xE5, 0x16, 0x00, 0x03, 0x05, 0x49, 0x7F, 0xFF];
        for &a in &alpha {
            for &b in &alpha {
                for &c in &alpha {
                    chain(&mut log, &[a, b, c], 3..=3);
                }
            }
        }
        // every SD2 length byte 0..255 with a structured body: consistent header with valid / damaged
        // trailer, inconsistent LEr, wrong repeated delimiter; prefixes around the interesting lengths
        for le in 0..=255usize {
            let body_len = le.max(3);
            let mut body: Vec<u8> = (0..body_len).map(|_| rng.gen()).collect();
            body[0] &= 0x7f;
            body[1] &= 0x7f;
            body[2] = [0x6Du8, 0x08, 0x49, 0x00][rng.gen_range(0..4)];
            let cs = body.iter().take(le.min(body.len())).fold(0u8, |a, b| a.wrapping_add(*b));
            let mut f = vec![0x68, le as u8, le as u8, 0x68];
            f.extend_from_slice(&body[..le.min(body.len())]);
            f.push(cs);
            f.push(0x16);
            let n = f.len();
            let mut ks: Vec<usize> = (0..=8.min(n)).collect();
            for k in [n.saturating_sub(2), n.saturating_sub(1), n] {
                if !ks.contains(&k) {
                    ks.push(k);
                }
            }
            ks.sort();
            chain(&mut log, &f, ks.clone().into_iter());
            // variants: LEr off by one, wrong repeated SD2, bad checksum, bad ED, trailing bytes
            let variant = le % 5;
            let mut g = f.clone();
            match variant {
                0 => g[2] = g[2].wrapping_add(1),
                1 => g[3] = 0x10,
                2 => { let i = n - 2; g[i] = g[i].wrapping_add(1); }
                3 => { let i = n - 1; g[i] = 0x17; }
                _ => g.extend_from_slice(&[0xE5, 0x00]),
            }
            let gn = g.len();
            let ks2: Vec<usize> = ks.iter().cloned().filter(|k| *k <= gn).chain(std::iter::once(gn)).collect();
            chain(&mut log, &g, ks2.into_iter());
        }
        // prefix chains of valid frames followed by trailing bytes
        let nchains = if thorough { 600 } else { 40 };
        for i in 0..nchains {
            let f = &frames[rng.gen_range(0..frames.len())];
            let mut b = f.clone();
            if i % 2 == 0 {
                let extra = rng.gen_range(1..6);
                for _ in 0..extra {
                    b.push(rng.gen());
                }
            }
            let n = b.len();
            chain(&mut log, &b, 0..=n);
        }
        // structured damage of headers: every header byte of SD2/SD1/SD3 frames set to boundary values
        let ndam = if thorough { 3000 } else { 250 };
        for _ in 0..ndam {
            let f = &frames[rng.gen_range(0..frames.len())];
            let mut b = f.clone();
            let hdr = b.len().min(7);
            let nmut = rng.gen_range(1..=2);
            for _ in 0..nmut {
                let pos = if rng.gen_bool(0.7) { rng.gen_range(0..hdr) } else { rng.gen_range(0..b.len()) };
                let vals = [0u8, 1, 2, 3, 4, 0x10, 0x68, 0xA2, 0xDC, 0xE5, 0x16, 0x80, 0xFF, b[pos].wrapping_add(1), b[pos] ^ 0x80, rng.gen()];
                b[pos] = vals[rng.gen_range(0..vals.len())];
            }
            if rng.gen_bool(0.3) {
                let cut = rng.gen_range(0..=b.len());
                b.truncate(cut);
            }
            let n = b.len();
            // full prefix chain for short inputs, sampled prefixes for long ones
            if n <= 40 {
                chain(&mut log, &b, 0..=n);
            } else {
                let ks: Vec<usize> = vec![0, 1, 2, 3, 4, 5, 6, 7, n / 2, n - 2, n - 1, n];
                chain(&mut log, &b, ks.into_iter());
            }
        }
        // random byte strings up to 262 bytes
        let nr = if thorough { 3000 } else { 200 };
        for _ in 0..nr {
            let n = if rng.gen_bool(0.8) { rng.gen_range(0..20) } else { rng.gen_range(0..=262) };
            let mut b: Vec<u8> = (0..n).map(|_| rng.gen()).collect();
            if n > 0 && rng.gen_bool(0.7) {
                b[0] = [0x10u8, 0x68, 0xA2, 0xDC, 0xE5][rng.gen_range(0..5)];
            }
            if n > 3 && b[0] == 0x68 && rng.gen_bool(0.7) {
                b[2] = b[1];
                if rng.gen_bool(0.7) {
                    b[3] = 0x68;
                }
            }
            let ks: Vec<usize> = if n <= 24 { (0..=n).collect() } else { vec![0, 3, 6, n - 1, n] };
            chain(&mut log, &b, ks.into_iter());
        }
    }

    // ------------------------------------------------ C10.subst: every single-byte substitution
    if want("sub") {
        let all: Vec<u8> = (0..=255).collect();
        let nfull = if thorough { 120 } else { 10 };
        // short frames: all positions x all 255 values
        let mut short: Vec<&Vec<u8>> = frames.iter().filter(|f| f.len() <= 16).collect();
        short.sort_by_key(|f| (f[0], f.len()));
        short.dedup_by_key(|f| (f[0], f.len()));
        let mut picked = 0;
        for f in short.iter() {
            subst_all(&mut log, f, &all);
            picked += 1;
            if picked >= nfull {
                break;
            }
        }
        // random frames: all positions x delimiter-like and random values
        let nsamp = if thorough { 1500 } else { 60 };
        for _ in 0..nsamp {
            let f = &frames[rng.gen_range(0..frames.len())];
            let vals = [0x10u8, 0x68, 0xA2, 0xDC, 0xE5, 0x16, 0x00, 0xFF, rng.gen(), rng.gen()];
            if f.len() <= 60 {
                subst_all(&mut log, f, &vals);
            } else {
                // long frames: header, trailer and a few interior positions
                log.push(json!({"ev":"Chain","bytes":f}));
                let mut m = f.to_vec();
                let mut poss: Vec<usize> = (0..8).chain(f.len() - 3..f.len()).collect();
                for _ in 0..6 {
                    poss.push(rng.gen_range(0..f.len()));
                }
                for pos in poss {
                    for &v in &vals {
                        if v != f[pos] {
                            m[pos] = v;
                            log.push(json!({"ev":"Sub","pos":pos,"val":v,"r":decode_json(&m)}));
                            m[pos] = f[pos];
                        }
                    }
                }
            }
        }
        // every single-bit error of some frames
        let nbits = if thorough { 300 } else { 20 };
        for _ in 0..nbits {
            let f = &frames[rng.gen_range(0..frames.len())];
            if f.len() > 40 {
                continue;
            }
            log.push(json!({"ev":"Chain","bytes":f}));
            let mut m = f.to_vec();
            for pos in 0..f.len() {
                for bit in 0..8 {
                    m[pos] = f[pos] ^ (1 << bit);
                    log.push(json!({"ev":"Sub","pos":pos,"val":m[pos],"r":decode_json(&m)}));
                }
                m[pos] = f[pos];
            }
        }
    }
    log.flush();
    eprintln!("codec: {} events", log.count);
}
