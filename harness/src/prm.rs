//! `pbv prm`: parameter block packing (C20).  Random well-formed layouts (all data types, offsets,
//! overlapping bit fields sharing a byte, constants underneath) are built directly from the public
//! structs of gsd-parser; PrmBuilder::new / set_prm / set_prm_from_text are called with in-range,
//! boundary and out-of-range values and the block is recorded after every call.
use crate::util::*;
use gsd_parser::{PrmBuilder, PrmValueConstraint, SetPrmError, UserPrmData, UserPrmDataDefinition, UserPrmDataType};
use rand::{Rng, SeedableRng};
use serde_json::{json, Value};
use std::collections::BTreeMap;
use std::sync::Arc;

fn limbs(v: i64) -> Value {
    let u = v as u64;
    json!([(u >> 48) & 0xffff, (u >> 32) & 0xffff, (u >> 16) & 0xffff, u & 0xffff])
}
fn ty_json(t: UserPrmDataType) -> Value {
    match t {
        UserPrmDataType::Unsigned8 => json!({"k":"u8","a":0,"b":0}),
        UserPrmDataType::Unsigned16 => json!({"k":"u16","a":0,"b":0}),
        UserPrmDataType::Unsigned32 => json!({"k":"u32","a":0,"b":0}),
        UserPrmDataType::Signed8 => json!({"k":"s8","a":0,"b":0}),
        UserPrmDataType::Signed16 => json!({"k":"s16","a":0,"b":0}),
        UserPrmDataType::Signed32 => json!({"k":"s32","a":0,"b":0}),
        UserPrmDataType::Bit(b) => json!({"k":"bit","a":b,"b":b}),
        UserPrmDataType::BitArea(a, b) => json!({"k":"bitarea","a":a,"b":b}),
    }
}
fn type_range(t: UserPrmDataType) -> (i64, i64) {
    match t {
        UserPrmDataType::Unsigned8 => (0, 255),
        UserPrmDataType::Unsigned16 => (0, 65535),
        UserPrmDataType::Unsigned32 => (0, 4294967295),
        UserPrmDataType::Signed8 => (-128, 127),
        UserPrmDataType::Signed16 => (-32768, 32767),
        UserPrmDataType::Signed32 => (-2147483648, 2147483647),
        UserPrmDataType::Bit(_) => (0, 1),
        UserPrmDataType::BitArea(a, b) => (0, (1i64 << (b - a + 1)) - 1),
    }
}
fn constraint_json(c: &PrmValueConstraint) -> Value {
    match c {
        PrmValueConstraint::MinMax(a, b) => json!({"k":"minmax","min":limbs(*a),"max":limbs(*b),"vals":[]}),
        PrmValueConstraint::Enum(v) => json!({"k":"enum","min":limbs(0),"max":limbs(0),"vals":v.iter().map(|x| limbs(*x)).collect::<Vec<_>>()}),
        PrmValueConstraint::Unconstrained => json!({"k":"none","min":limbs(0),"max":limbs(0),"vals":[]}),
    }
}
fn desc_json(d: &UserPrmData) -> Value {
    json!({
        "consts": d.data_const.iter().map(|(o, b)| json!({"off":o,"data":b})).collect::<Vec<_>>(),
        "refs": d.data_ref.iter().map(|(o, r)| json!({
            "off":o,"name":r.name,"ty":ty_json(r.data_type),"default":limbs(r.default_value),"constraint":constraint_json(&r.constraint),
            "hastexts": r.text_ref.is_some(),
            "texts": r.text_ref.as_ref().map(|m| m.iter().map(|(k, v)| json!({"t":k,"v":limbs(*v)})).collect::<Vec<_>>()).unwrap_or_default(),
        })).collect::<Vec<_>>(),
    })
}
fn err_kind(e: &SetPrmError) -> &'static str {
    match e {
        SetPrmError::PrmNotFound(_) => "notfound",
        SetPrmError::PrmWithoutTexts(_) => "notexts",
        SetPrmError::PrmTextNotFound { .. } => "textnotfound",
        SetPrmError::ValueConstraint(_) => "constraint",
        SetPrmError::ValueRange { .. } => "range",
    }
}

fn rand_type(rng: &mut impl Rng) -> UserPrmDataType {
    match rng.gen_range(0..10) {
        0 => UserPrmDataType::Unsigned8,
        1 => UserPrmDataType::Unsigned16,
        2 => UserPrmDataType::Unsigned32,
        3 => UserPrmDataType::Signed8,
        4 => UserPrmDataType::Signed16,
        5 => UserPrmDataType::Signed32,
        6 | 7 => UserPrmDataType::Bit(rng.gen_range(0..8)),
        _ => {
            let a = rng.gen_range(0..8u8);
            let b = rng.gen_range(a..8u8);
            UserPrmDataType::BitArea(a, b)
        }
    }
}

fn interesting(rng: &mut impl Rng, t: UserPrmDataType, c: &PrmValueConstraint) -> i64 {
    let (lo, hi) = type_range(t);
    let mut cands = vec![lo, hi, lo - 1, hi + 1, 0, 1, -1, lo + 1, hi - 1, 40000, -40000, 256, 65536, 4294967296, -2147483649, i64::MAX, i64::MIN];
    match c {
        PrmValueConstraint::MinMax(a, b) => cands.extend_from_slice(&[*a, *b, a - 1, b + 1, (a + b) / 2]),
        PrmValueConstraint::Enum(v) => {
            cands.extend_from_slice(v);
            cands.extend(v.iter().map(|x| x + 1));
        }
        _ => {}
    }
    if rng.gen_bool(0.3) && hi > lo {
        return rng.gen_range(lo..=hi);
    }
    cands[rng.gen_range(0..cands.len())]
}

fn rand_layout(rng: &mut impl Rng) -> UserPrmData {
    let len = rng.gen_range(1..16usize);
    let mut d = UserPrmData { length: len as u8, data_const: vec![], data_ref: vec![] };
    // constants underneath
    for _ in 0..rng.gen_range(0..3) {
        let off = rng.gen_range(0..len);
        let n = rng.gen_range(1..=(len - off).min(6));
        d.data_const.push((off, (0..n).map(|_| rng.gen()).collect()));
    }
    let nrefs = rng.gen_range(1..7);
    let mut shared: Option<usize> = None;
    for i in 0..nrefs {
        let t = rand_type(rng);
        // bit fields like to share a byte
        let off = match (t, shared) {
            (UserPrmDataType::Bit(_) | UserPrmDataType::BitArea(..), Some(o)) if rng.gen_bool(0.7) => o,
            _ => rng.gen_range(0..len + 2),
        };
        if matches!(t, UserPrmDataType::Bit(_) | UserPrmDataType::BitArea(..)) {
            shared = Some(off);
        }
        let (lo, hi) = type_range(t);
        let constraint = match rng.gen_range(0..3) {
            0 => PrmValueConstraint::Unconstrained,
            1 => {
                let a = rng.gen_range(lo..=hi);
                let b = rng.gen_range(a..=hi);
                PrmValueConstraint::MinMax(a, b)
            }
            _ => PrmValueConstraint::Enum((0..rng.gen_range(1..4)).map(|_| rng.gen_range(lo..=hi)).collect()),
        };
        let default = if rng.gen_bool(0.93) { rng.gen_range(lo..=hi) } else { interesting(rng, t, &constraint) };
        let texts = if rng.gen_bool(0.4) {
            let mut m = BTreeMap::new();
            for k in 0..rng.gen_range(1..4) {
                m.insert(format!("T{k}"), interesting(rng, t, &constraint));
            }
            Some(Arc::new(m))
        } else {
            None
        };
        // names may repeat (the first definition wins)
        let name = if rng.gen_bool(0.1) && i > 0 { "P0".to_string() } else { format!("P{i}") };
        d.data_ref.push((off, Arc::new(UserPrmDataDefinition { name, data_type: t, default_value: default, constraint, text_ref: texts, changeable: true, visible: true })));
    }
    d
}

pub fn run(args: &Args) {
    let out = args.str("out", "/dev/stdout");
    let seed: u64 = args.num("seed", 1);
    let layouts: usize = args.num("runs", 300);
    let mut log = EvLog::create(&out);
    let mut rng = rand::rngs::StdRng::seed_from_u64(seed);
    for _ in 0..layouts {
        let d = rand_layout(&mut rng);
        let dj = desc_json(&d);
        beat();
        let built = guarded(|| PrmBuilder::new(&d).map(|b| b.as_bytes().to_vec()));
        let mut builder = match built {
            Err((msg, loc)) => {
                log.push(json!({"ev":"Panic","during":"new","msg":msg,"loc":short_loc(&loc),"desc":dj}));
                continue;
            }
            Ok(Err(_)) => {
                log.push(json!({"ev":"New","desc":dj,"ok":false,"bytes":[]}));
                continue;
            }
            Ok(Ok(bytes)) => {
                log.push(json!({"ev":"New","desc":dj,"ok":true,"bytes":bytes}));
                PrmBuilder::new(&d).unwrap()
            }
        };
        for _ in 0..rng.gen_range(3..14) {
            let pre = builder.as_bytes().to_vec();
            let ri = rng.gen_range(0..d.data_ref.len());
            let r = &d.data_ref[ri].1;
            let name = if rng.gen_bool(0.08) { "NOPE".to_string() } else { r.name.clone() };
            let by_text = rng.gen_bool(0.25);
            beat();
            if by_text {
                let text = if rng.gen_bool(0.3) { "T9".to_string() } else { format!("T{}", rng.gen_range(0..3)) };
                let res = guarded(|| builder.set_prm_from_text(&name, &text).map(|_| ()).map_err(|e| err_kind(&e)));
                match res {
                    Err((msg, loc)) => {
                        log.push(json!({"ev":"Panic","during":"set_text","msg":msg,"loc":short_loc(&loc)}));
                        break;
                    }
                    Ok(r) => log.push(json!({"ev":"Set","name":name,"v":[],"text":text,"pre":pre,"post":builder.as_bytes(),"res":r.err().unwrap_or("ok")})),
                }
            } else {
                let v = interesting(&mut rng, r.data_type, &r.constraint);
                let res = guarded(|| builder.set_prm(&name, v).map(|_| ()).map_err(|e| err_kind(&e)));
                match res {
                    Err((msg, loc)) => {
                        log.push(json!({"ev":"Panic","during":"set","msg":msg,"loc":short_loc(&loc)}));
                        break;
                    }
                    Ok(r) => log.push(json!({"ev":"Set","name":name,"v":limbs(v),"text":"-","pre":pre,"post":builder.as_bytes(),"res":r.err().unwrap_or("ok")})),
                }
            }
        }
    }
    log.flush();
    eprintln!("prm: {} events", log.count);
}
