"""C09 (encode/decode inverse) and C10 (decoder totality, prefix consistency, acceptance):
operator specification Codec.tla checked by TLC (MC_Codec) + recorded calls of the real
encoder/decoder validated by TraceCodec.tla."""
import json
import os

import core

PARTS = {"C09": ["fc", "enc"], "C10": ["dec", "sub"]}
MODEL_CFG = {("C09", "quick"): "MC_Codec_C09_quick.cfg", ("C09", "thorough"): "MC_Codec_C09_thorough.cfg",
             ("C10", "quick"): "MC_Codec_C10_quick.cfg", ("C10", "thorough"): "MC_Codec_C10_thorough.cfg"}


def _drive(prop, tier, d, seed):
    jobs = []
    nseeds = 1 if tier == "quick" else 4
    for part in PARTS[prop]:
        for s in range(nseeds):
            out = os.path.join(d, "%s_%s_%d.ndjson" % (prop, part, s))
            jobs.append((["codec", "--part", part, "--tier", tier, "--seed", seed * 1000 + s], out))
    core.run_drivers(jobs)
    return jobs


def run(prop, tier):
    rep = core.Report(prop, tier)
    seed = core.seed()
    # layer M/P on the operators
    m = rep.add_model(core.tlc_model("MC_Codec", MODEL_CFG[(prop, tier)], workers=8, timeout=3000))
    if not m["ok"]:
        raise core.ToolError("the operator specification violates its own clauses:\n" + m["error"][:3000])
    # real code
    d = core.workdir(prop, tier, clean=True)
    jobs = _drive(prop, tier, d, seed)
    files = []
    for args, out in jobs:
        for part, linemap in core.split_trace(out, 12 if tier == "quick" else 14):
            files.append((part, linemap, args, out))
    results = core.tlc_traces("TraceCodec", "TraceCodec.cfg", [f[0] for f in files])
    for (part, linemap, args, out), res in zip(files, results):
        def info(b, part=part, linemap=linemap, args=args, out=out):
            ln = linemap[b["l"] - 1]
            ctx = core.read_lines(out, [ln])
            chain = None
            ev = ctx.get(ln)
            if isinstance(ev, dict) and ev.get("ev") in ("Dec", "Sub"):
                with open(out) as fh:
                    for i, l in enumerate(fh, 1):
                        if i >= ln:
                            break
                        if '"ev":"Chain"' in l:
                            chain = json.loads(l)
            return {"driver_args": args, "trace": out, "line": ln, "event": ev, "chain": chain, "tracespec": "TraceCodec"}
        rep.add_trace_result(res, info)
        rep.traces += 1
    with open(jobs[0][1]) as fh:
        rep.samples = [json.loads(next(fh)) for _ in range(2)]
    with open(jobs[-1][1]) as fh:
        ls = fh.readlines()
        rep.samples += [json.loads(x) for x in ls[len(ls) // 2: len(ls) // 2 + 2]]
    rep.assumptions = ["TLC, SANY, CommunityModules Json reader", "harness mapping of API enums to wire numbers (codec.rs)",
                       "C10.subst exempts re-framing of the first byte as SD4/SC (DESIGN 5.6)"]
    return rep.finish({"rule": "recorded calls of the real encoder/decoder; non-trivial = clause evaluated with true antecedent (see clauses)"})


def replay(prop, path):
    with open(path) as fh:
        info = json.load(fh)
    d = core.workdir("replay_run", clean=True)
    out = os.path.join(d, "trace.ndjson")
    core.run_driver(info["driver_args"], out)
    rep = core.Report(prop, "quick")
    for part, linemap in core.split_trace(out, 12):
        res = core.tlc_trace("TraceCodec", "TraceCodec.cfg", part)
        rep.add_trace_result(res, lambda b: {"driver_args": info["driver_args"], "line": linemap[b["l"] - 1]})
        rep.traces += 1
    rep.samples = [info.get("event")]
    return rep.finish()
