#!/bin/bash
# usage: lib/seedtest.sh <patch.diff> <prop> [<prop>...]   -- apply a seeded change to /repo, run the quick checks, undo
set -u
patch=$1; shift
cd /repo && git status --short | grep -q . && { echo "repo not clean"; exit 2; }
git -C /repo apply "$patch" || { echo "patch does not apply"; exit 2; }
for p in "$@"; do
  echo "=== $p"
  (cd /verif && ./check $p --tier quick 2>&1 | grep -E "VIOLATION|KNOWN|MODEL-DRIFT|MODEL-COUNTER|TOOL-ERROR|tier=" | sed 's/replay=[^ ]*//' | sort | uniq -c | sort -rn | head -12 | cut -c1-260)
done
git -C /repo checkout -- .
git -C /repo status --short
