"""Layer-M TLC jobs per property (implementation-shaped models explored by TLC)."""
import core

JOBS = {}


def jobs(prop, tier):
    return JOBS.get((prop, tier), [])


def run_job(rep, job):
    r = core.tlc_model(job["module"], job["cfg"], workers=job.get("workers", 8), timeout=job.get("timeout", 1800), allow_timeout=job.get("allow_timeout", False))
    rep.add_model(r)
    if not r["ok"] and not r["timed_out"]:
        # a counterexample on the model is not a verdict about the code (DESIGN 2.5): report it
        core.log("MODEL-COUNTEREXAMPLE %s/%s:\n%s" % (job["module"], job["cfg"], r["error"][:3000]))
        rep.extra.setdefault("model_counterexamples", []).append({"module": job["module"], "cfg": job["cfg"], "error": r["error"][:1500]})
    return r
