"""Layer-M TLC jobs per property (implementation-shaped models explored by TLC)."""
import core

JOBS = {
    ("C12", "quick"): [dict(module="GapSweep", cfg="GapSweep_quick.cfg", workers=8)],
    ("C12", "thorough"): [dict(module="GapSweep", cfg="GapSweep_thorough.cfg", workers=12, timeout=7200)],
    ("C01", "quick"): [dict(module="Turnaround", cfg="Turnaround_fixed.cfg", workers=4)],
    ("C01", "thorough"): [dict(module="Turnaround", cfg="Turnaround_fixed.cfg", workers=4), dict(module="Turnaround", cfg="Turnaround_slot200.cfg", workers=4),
                          dict(module="Turnaround", cfg="Turnaround_gap.cfg", workers=4)],
    # Ring.tla: N stations built from FdlStation!DoPoll in synchronous rounds.  Fault-free configurations: no
    # collision, no panic, no GAP request outside the gap, and <>[]Converged under weak fairness.
    ("C02", "quick"): [dict(module="Ring", cfg="MC_RingFF_quick.cfg", workers=8), dict(module="Ring", cfg="MC_RingFF_two.cfg", workers=4)],
    ("C02", "thorough"): [dict(module="Ring", cfg="MC_RingFF_quick.cfg", workers=8), dict(module="Ring", cfg="MC_RingFF_two.cfg", workers=4),
                          dict(module="Ring", cfg="MC_RingFF_four.cfg", workers=12, timeout=3600), dict(module="Ring", cfg="MC_RingFF_hsa6.cfg", workers=8),
                          dict(module="Ring", cfg="MC_RingFF_base6.cfg", workers=8)],
    # with faults (leave, join onto a running bus, lost telegram): safety and <>[]Converged once the budgets are spent
    ("C06", "quick"): [dict(module="Ring", cfg="MC_RingFault_leave.cfg", workers=8), dict(module="Ring", cfg="MC_RingFault_drop.cfg", workers=4)],
    ("C06", "thorough"): [dict(module="Ring", cfg="MC_RingFault_leave.cfg", workers=8), dict(module="Ring", cfg="MC_RingFault_drop.cfg", workers=4),
                          dict(module="Ring", cfg="MC_RingFault_leavejoin.cfg", workers=12, timeout=3600),
                          dict(module="Ring", cfg="MC_RingFault_quick.cfg", workers=12, timeout=5400, allow_timeout=True)],
    # MC_Dp: the DP master operators (Dp.tla, conformance-checked against the real DpMaster by TraceDpM) with the reference
    # slave and a fault budget: no panic, C08/C03/C14 monitors, and <>[]AllRunning (C07) - complete state spaces
    ("C07", "quick"): [dict(module="MC_Dp", cfg="MC_Dp_quick.cfg", workers=8), dict(module="MC_Dp", cfg="MC_Dp_np0.cfg", workers=2)],
    ("C07", "thorough"): [dict(module="MC_Dp", cfg="MC_Dp_quick.cfg", workers=8), dict(module="MC_Dp", cfg="MC_Dp_np0.cfg", workers=2),
                          dict(module="MC_Dp", cfg="MC_Dp_three.cfg", workers=12, timeout=3600), dict(module="MC_Dp", cfg="MC_Dp_thorough.cfg", workers=12, timeout=3600)],
    ("C08", "quick"): [dict(module="MC_Dp", cfg="MC_Dp_quick.cfg", workers=8)],
    ("C08", "thorough"): [dict(module="MC_Dp", cfg="MC_Dp_three.cfg", workers=12, timeout=3600), dict(module="MC_Dp", cfg="MC_Dp_thorough.cfg", workers=12, timeout=3600)],
    ("C03", "quick"): [dict(module="MC_Dp", cfg="MC_Dp_quick.cfg", workers=8)],
    ("C03", "thorough"): [dict(module="MC_Dp", cfg="MC_Dp_three.cfg", workers=12, timeout=3600)],
    ("C14", "quick"): [dict(module="MC_Dp", cfg="MC_Dp_quick.cfg", workers=8), dict(module="MC_Dp", cfg="MC_Dp_np0.cfg", workers=2)],
    ("C14", "thorough"): [dict(module="MC_Dp", cfg="MC_Dp_three.cfg", workers=12, timeout=3600), dict(module="MC_Dp", cfg="MC_Dp_np0.cfg", workers=2)],
}


def jobs(prop, tier):
    return JOBS.get((prop, tier), [])


def run_job(rep, job):
    r = core.tlc_model(job["module"], job["cfg"], workers=job.get("workers", 8), timeout=job.get("timeout", 1800), allow_timeout=job.get("allow_timeout", False))
    rep.add_model(r)
    if not r["ok"] and not r["timed_out"]:
        # a counterexample on the model is not a verdict about the code (DESIGN 2.5): report it
        core.log("MODEL-COUNTEREXAMPLE %s/%s:\n%s" % (job["module"], job["cfg"], r["error"][:3000]))
        rep.extra.setdefault("model_counterexamples", []).append({"module": job["module"], "cfg": job["cfg"], "error": r["error"][:1500]})
    return r
