"""Single-station exploration (MC_FdlSingle): TLC checks the implementation-shaped model
FdlStation against an adversarial peer, emits one schedule per reachable model state, the
schedules are replayed poll by poll on the real FdlActiveStation (pbv single) and the recorded
traces are validated by TraceBus.tla: layer-P clauses (C05 C11 C12 C15) and layer-M conformance."""
import json
import os
import re

import core

# the Fix* flags say which repairs of DESIGN section 7 the current /repo contains (layer M models
# what the code does today)
FIX = {"FixF2": "TRUE", "FixF3": "TRUE", "FixF14": "TRUE"}

PLACEMENTS = {
    "mid": dict(TS=2, HSA=5, G=1, Others="{1, 3, 126}", PS=1, NS=3),
    "zero": dict(TS=0, HSA=4, G=1, Others="{1, 3, 126}", PS=3, NS=1),
    "top": dict(TS=3, HSA=4, G=2, Others="{0, 2, 126}", PS=2, NS=0),
}
# cold: from Offline; warm: from a station admitted to a three-station ring (fixed input prefix)
DEPTH = {"quick": dict(check=5, emit=3, wcheck=4, wemit=2), "thorough": dict(check=7, emit=4, wcheck=6, wemit=3)}


def cfg_text(pl, depth, emit, invariants, napps=1, warm=False):
    """warm: False (cold start), True (admitted to a ring, ActiveIdle) or "held" (admitted and just handed the token).
    Application requests go to the predecessor's address, so that telegrams *from the addressed station* (tokens,
    requests, replies) are in the alphabet while a reply is outstanding."""
    p = PLACEMENTS[pl]
    lines = ["SPECIFICATION Spec",
             "CONSTANTS TS = %d HSA = %d G = %d NApps = %d Others = %s AppTargets = {%d}" % (p["TS"], p["HSA"], p["G"], napps, p["Others"], p["PS"]),
             "  MaxDepth = %d WithPartial = FALSE Emit = \"%s\"" % (depth, emit),
             "  Warm = %s Held = %s WarmPS = %d WarmNS = %d" % ("TRUE" if warm else "FALSE", "TRUE" if warm == "held" else "FALSE", p["PS"], p["NS"]),
             "  " + " ".join("%s = %s" % kv for kv in sorted(FIX.items()))]
    lines += ["INVARIANT " + i for i in invariants]
    lines += ["VIEW View", "CONSTRAINT BufBound", "CHECK_DEADLOCK FALSE"]
    return "\n".join(lines) + "\n"


def write_cfg(name, text):
    d = core.workdir("cfg")
    path = os.path.join(d, name)
    with open(path, "w") as fh:
        fh.write(text)
    return path


def _sfx(warm):
    return "_held" if warm == "held" else "_warm" if warm else ""


_SCHED = re.compile(r'^<<"SCHED", "(.*)">>\s*$', re.M)


def model_check(rep, pl, tier, workers=8, warm=False):
    cfg = write_cfg("MC_FdlSingle_%s_%s%s.cfg" % (pl, tier, _sfx(warm)),
                    cfg_text(pl, DEPTH[tier]["wcheck" if warm else "check"], "none", ["NoPanic", "RulesOk", "TypeOk", "WarmOk"], warm=warm))
    r = core.tlc_model("MC_FdlSingle", cfg, workers=workers, timeout=3000)
    rep.add_model(r)
    if not r["ok"]:
        m = re.search(r"Invariant (\w+) is violated", r["output"])
        lab = re.findall(r'panic \|-> "([^"]+)"', r["output"])
        vio = re.findall(r'viol = "([^"]+)"', r["output"])
        rep.extra.setdefault("model_counterexamples", []).append(
            {"module": "MC_FdlSingle", "placement": pl, "invariant": m.group(1) if m else "?", "panic": lab[-1] if lab else None,
             "viol": vio[-1] if vio else None})
        core.log("MODEL-COUNTEREXAMPLE MC_FdlSingle/%s: invariant %s (panic=%s viol=%s) - replayed on the real code below" % (
            pl, m.group(1) if m else "?", lab[-1] if lab else None, vio[-1] if vio else None))
    return r


def emit_schedules(rep, pl, tier, warm=False):
    """State cover: one shortest schedule per reachable model state (no invariants: schedules that
    drive the model into a panic are wanted too)."""
    cfg = write_cfg("MC_FdlSingle_%s_%s%s_emit.cfg" % (pl, tier, _sfx(warm)),
                    cfg_text(pl, DEPTH[tier]["wemit" if warm else "emit"], "state", ["EmitState"], warm=warm))
    r = core.tlc_model("MC_FdlSingle", cfg, workers=1, timeout=3000)
    rep.add_model(r)
    p = PLACEMENTS[pl]
    out = os.path.join(core.workdir("single", tier), "sched_%s%s.ndjson" % (pl, _sfx(warm)))
    n = 0
    seen = set()
    with open(out, "w") as fh:
        for m in _SCHED.finditer(r["output"]):
            j = json.loads(core._unescape(m.group(1)))
            if not j["h"]:
                continue
            k = hash(j.pop("key", None))
            if k in seen:       # TLC evaluates the printing invariant on every generated state: keep the first (shortest) schedule
                continue
            seen.add(k)
            j.update({"ts": p["TS"], "hsa": p["HSA"], "g": p["G"], "napps": 1, "hold": n % 5 != 0})
            fh.write(json.dumps(j) + "\n")
            n += 1
    return out, n


def single_results(tier):
    seed = core.seed()
    key = core.source_hash([os.path.join(core.SPEC, f) for f in ("BusRules.tla", "TraceBus.tla", "FdlStation.tla", "Las.tla", "MC_FdlSingle.tla")]
                           + [os.path.abspath(__file__)])
    d = core.workdir("single", tier)
    cache = os.path.join(d, "results_%s_%d.json" % (key, seed))
    if os.path.exists(cache):
        with open(cache) as fh:
            return json.load(fh)
    d = core.workdir("single", tier, clean=True)
    rep = core.Report("C05", tier)        # scratch report for the model bookkeeping
    placements = ["mid", "zero", "top"] if tier == "thorough" else ["mid", "top"]
    models = []
    jobs = []
    nsched = 0
    for pl in placements:
        for warm in ((False, True, "held") if (tier == "thorough" or pl == "mid") else (True,)):
            r = model_check(rep, pl, tier, warm=warm)
            models.append({k: r[k] for k in ("module", "cfg", "generated", "distinct", "ok", "timed_out", "wall_s")})
            sched, n = emit_schedules(rep, pl, tier, warm=warm)
            nsched += n
            # every schedule is followed by a quiet continuation so that what the station decided becomes visible on the wire
            jobs.append((["single", "--sched", sched, "--quiet", 3], os.path.join(d, "replay_%s%s.ndjson" % (pl, _sfx(warm))), "replay"))
    # random deep walks over the same alphabet (beyond the exhaustive depth, other placements, 0..2 apps)
    nr = 6 if tier == "quick" else 40
    for k in range(nr):
        jobs.append((["single", "--seed", seed * 131 + k, "--runs", 40 if tier == "quick" else 100, "--len", 80], os.path.join(d, "random_%02d.ndjson" % k), "random"))
    core.run_drivers([(a, o) for a, o, _ in jobs])
    files = []
    todo = []
    for args, out, kind in jobs:
        for part, linemap in core.split_trace(out, 10, carry_events=(), boundary=lambda l: '"ev":"Cfg"' in l):
            todo.append((part, linemap, args, out, kind))
    results = core.tlc_traces("TraceBus", "TraceBus.cfg", [t[0] for t in todo])
    for (part, linemap, args, out, kind), res in zip(todo, results):
        res["mode"] = "single-" + kind
        res["driver_args"] = args
        res["orig"] = out
        files.append(res)
    data = {"files": files, "models": models, "counterexamples": rep.extra.get("model_counterexamples", []), "schedules": nsched,
            "model_states": rep.states, "model_transitions": rep.transitions}
    with open(cache, "w") as fh:
        json.dump(data, fh)
    return data
