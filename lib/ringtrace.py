#!/usr/bin/env python3
"""Compact printer for a TLC counterexample of Ring.tla: ringtrace.py <tlc output> [from-state]"""
import re, sys
t = open(sys.argv[1]).read()
lo = int(sys.argv[2]) if len(sys.argv) > 2 else 1
states = re.split(r'\nState (\d+): ', t)
for i in range(1, len(states), 2):
    n = int(states[i]); b = states[i + 1]
    if n < lo:
        continue
    act = b.split('\n')[0]
    act = re.sub(r' line.*', '', act)[1:14]
    w = re.search(r'/\\ wire = (.*?)\n/\\', b, re.S)
    ws = re.sub(r'\s+', ' ', w.group(1)) if w else ''
    m = re.search(r'by \|-> (-?\d+), tg \|-> \[st \|-> (\d+), k \|-> "(\w+)", da \|-> (-?\d+), sa \|-> (-?\d+)', ws)
    ws = "-" if not m or m.group(1) == "-1" else ("COLL" if m.group(1) == "-2" else "%s:%s %s->%s st%s" % (m.group(1), m.group(3), m.group(5), m.group(4), m.group(2)))
    fs = [x[:5] for x in re.findall(r'fsm \|-> "(\w+)"', b)]
    las = re.findall(r'las \|-> (\{[^}]*\})', b)
    on = re.search(r'/\\ online = \((.*)\)', b)
    q = re.search(r'/\\ quiet = \((.*)\)', b)
    ons = ''.join('1' if x == 'TRUE' else '0' for x in re.findall(r':> (\w+)', on.group(1))) if on else ''
    qs = ','.join(re.findall(r':> (\d+)', q.group(1))) if q else ''
    print(n, act, ' '.join(fs), ' '.join(las).replace(' ', ''), ons, qs, ws)
m = re.search(r'Back to state (\d+)', t)
if m:
    print("loop back to", m.group(1))
