"""Generate MANIFEST.json from the table below (kept in one place so that it is always valid)."""
import json
import os

VERIF = os.path.dirname(os.path.dirname(os.path.abspath(__file__)))

CHECKS = {
    "C09": dict(
        text="Operator specification Codec.tla (normative frame format + model decoder) checked exhaustively by TLC on the structural grid "
             "(MC_Codec: every function code x SAP presence x boundary lengths round-trips); every recorded call of the real encoder/decoder "
             "(structural grid, random telegrams over the whole space, all 256 function-code bytes) is validated by TLC against the clauses "
             "C09.format/len/inverse/exact/fc of TraceCodec.tla. Right level: the property is about one pure function pair, so the spec is an executable "
             "normative definition and the binding is trace validation of calls.",
        note="Trusted: TLC/SANY/Json module, harness enum-to-wire mapping (codec.rs). Payload contents are randomised, structure is exhaustive only over the grid.",
        technique="TLA+ operator spec model-checked by TLC + TLC trace validation of recorded encoder/decoder calls", ref="6 C09"),
    "C10": dict(
        text="TLC proves the C10 clauses (total, inside, needmore, accept, prefix, subst) for the specification decoder on all strings up to length 6/7 over a "
             "12-symbol delimiter alphabet and all single-byte substitutions of grid frames; recorded calls of the real decoder (all 1-byte strings, 2-byte strings "
             "with delimiter first byte / all 65536 in thorough, prefix chains of valid and damaged frames, random strings up to 262 bytes, every single-byte "
             "substitution of short frames, every single-bit error) are validated by TLC against the same clauses and compared with the model decoder (conformance).",
        note="Trusted: TLC/SANY/Json module. C10.subst exempts re-framing of byte 0 as SD4/SC (no redundancy exists, DESIGN 5.6). LE>249 frames are not required to be rejected.",
        technique="TLA+ operator spec model-checked by TLC + TLC trace validation of recorded decoder calls", ref="6 C10"),
}


RING_NOTE = 'Trusted: harness virtual bus arithmetic (vbus.rs), TLC/SANY/Json module; premises of DESIGN 5.1/5.2 enforced by the driver (fault-free runs inject nothing, cold stations start together, poll period <= Tsl/4); bounds of DESIGN 5.4. Exhaustive exploration is in the layer-M model jobs listed in the evidence; beyond their constants coverage is seeded random.'
RING_TECH = "TLA+ rule monitor (BusRules.tla) as TLC trace specification over event logs of the real stack on a byte-accurate virtual bus + TLC model checking of implementation-shaped models"
CHECKS.update({
    "C01": dict(text="Every transmission of every real station in seeded random ring runs (2..5 stations, all baud rates, boundary addresses, join plans, jittered polls, traffic apps) is classified by the TLA+ rule monitor (Holder / PassSupervision / Reply / Claim) and checked for overlap, 33-bit and 11-bit idle times with 1 us tolerance; TLC validates each event log against TraceBus.tla.", note=RING_NOTE, technique=RING_TECH, ref="6 C01"),
    "C02": dict(text="Same runs: after the last population event the monitor requires agreement of all public LAS/NS/PS views plus 2N tokens in address order before the Bconv deadline (C02.converge), and rejects any later deviation (C02.stable, C02.order).", note=RING_NOTE, technique=RING_TECH, ref="6 C02"),
    "C06": dict(text="Fault-plan runs (1..4 dropped/garbled/truncated telegrams for one or all receivers, crash incl. mid-transmission, restart, un-synchronised cold start): after FaultsEnd the monitor requires recovery (views agree, 2N ordered tokens) within Brec, then stability, single token (C06.single) and a live bus (C06.alive).", note=RING_NOTE, technique=RING_TECH, ref="6 C06"),
    "C11": dict(text="Token acceptance (predecessor or second offer, never while listening), retry count <= 3, slot-time supervision, successor removal only when silent, never when heard - judged on every token on the wire of the ring runs from wire bytes and public views.", note=RING_NOTE, technique=RING_TECH, ref="6 C11"),
    "C12": dict(text="Every GAP poll of the ring runs is checked against the strict (TS,NS) range, one per visit, cadence bound, successor promotion; every status reply against the replier's public view; ready only after claim or two identical rotations.", note=RING_NOTE, technique=RING_TECH, ref="6 C12"),
    "C13": dict(text="Ring runs with traffic applications and TTR down to 256 bit: every application message cycle after the first of a visit must start before previous token receipt + TTR + one poll period.", note=RING_NOTE, technique=RING_TECH, ref="6 C13"),
    "C15": dict(text="Instrumented applications in the ring runs: transmit call-backs only for the wire holder with no request outstanding, exactly one matching reply/time-out per request, reply form, round-robin order modulo number of apps, no second turn after decline.", note=RING_NOTE, technique=RING_TECH, ref="6 C15"),
})

DP_NOTE = "Trusted: reference slave and channel of the harness (dp.rs, DESIGN 5.5), reply classes by form (DESIGN 5.6) computed inside TLC from wire bytes with Codec.tla, TLC/SANY/Json; events collected after every poll. Exhaustive part: layer-M model jobs listed in the evidence (when present); beyond them seeded random histories."
DP_TECH = "TLA+ rule monitor (DpRules.tla) as TLC trace specification over event logs of the real FdlActiveStation+DpMaster against reference slaves + TLC model checking of the DP model"
CHECKS.update({
    "C03": dict(text="Per peripheral the monitor tracks the bring-up phase from delivered replies (diag ok -> Set_Prm SC -> Chk_Cfg SC -> clean diag) and rejects any Data_Exchange request outside Ready (C03.order, strict Prm_Req reading); Set_Prm/Chk_Cfg bytes are compared with the normative PDU built from the configured options (C03.prm/cfg/saps/wd).", note=DP_NOTE, technique=DP_TECH, ref="6 C03"),
    "C04": dict(text="DX request payload = last user write (C04.out); pi_i changes only after a delivered well-formed DX reply of the configured length without SAPs and then equals its payload (C04.in); DataExchanged iff such an update or SC for input-less peripherals (C04.event) - under lost/substituted replies of every kind.", note=DP_NOTE, technique=DP_TECH, ref="6 C04"),
    "C07": dict(text="After FaultsEnd (all slaves powered, matching, fault flags cleared) every peripheral must be running within Bdp = 4(retry+2)+10 DP cycles (C07.running), from whatever state the random fault/power-cycle/user-call history left master and slaves in.", note=DP_NOTE, technique=DP_TECH, ref="6 C07"),
    "C08": dict(text="Every request towards a peripheral is checked against first/probe/same/toggle/limit clauses from the wire bytes, the replies actually delivered and the Offline/Online events, for retry limits 1..3 (quick) / 1..15 (thorough), user diagnostics requests at arbitrary instants.", note=DP_NOTE, technique=DP_TECH, ref="6 C08"),
    "C14": dict(text="Destinations between cycle reports form a subsequence of slot order with <= 1+retry adjacent repeats (C14.pass); peripheral events follow the life-cycle automaton and agree with is_live/is_running after every poll (C14.life/flags); DX only after Configured; master turn ends also for 0 peripherals (Hang event).", note=DP_NOTE, technique=DP_TECH, ref="6 C14"),
    "C05": dict(text="Panic and Hang events are never accepted in any driver: ring runs (all modes incl. faults and un-synchronised start), TLC-generated schedules of MC_FdlSingle replayed on the real station (every reachable model state to the emit depth, adversarial telegrams incl. addresses >125 and own address), random deep single-station walks, DP runs with 0..4 peripherals and random extended diagnostics; model: NoPanic invariant of MC_FdlSingle. Harness builds with debug assertions and overflow checks and a logger that formats every record.", note="Trusted: catch_unwind at the poll call site, 5 s watchdog for hangs, TLC. Byte-level random/mutational fuzzing is harness-driven (TLA+ supplies only the oracle 'no Panic/Hang').", technique="TLC model checking of FdlStation (NoPanic) + replay of TLC schedules on the real code + TLC trace validation of all driver logs", ref="6 C05"),
})

CALL_TECH = "TLA+ operator specification model-checked by TLC + TLC trace validation of recorded calls of the real code"
CHECKS.update({
    "C16": dict(text="RxPath.tla defines receive_telegram / receive_all_telegrams over a byte buffer with the normative decoder; TLC (MC_RxPath) explores all chunkings and call interleavings for all sequences of <= 2/3 telegrams (order, each once, is_last, nothing lost); sessions of the real helpers over the harness PHY and the repository's SimulatorPhy (random chunks 1..300 bytes, junk injections) are validated call by call (C16.order/last/keep/deliver, exact model conformance).", note="Trusted: TLC, Codec.tla as decoder, harness bookkeeping of what was sent (rx.rs). Telegram contents random; chunkings exhaustive only in the model.", technique=CALL_TECH, ref="6 C16"),
    "C17": dict(text="Diag.tla defines the 6-byte standard part, storing of extended diagnostics and the block iterator as a cursor machine; TLC (MC_Diag) checks termination, blocks inside the buffer, consecutive, stop at first malformed block for all strings up to 4/5 bytes over a header alphabet; the real code is driven through the public DP path (DpMaster as FdlApplication) with all 1-byte and (delimiter-first / all) 2-byte extension strings, all header bytes with structured tails, random PDUs, buffer sizes 0..244, two replies per master (stale data), Debug formatting, and the DP scanner; every record is validated by TLC.", note="Trusted: TLC, harness mapping of ChannelDataType/ChannelError enums (diag.rs). The permanent bit is masked in the flag comparison (documented behaviour).", technique=CALL_TECH, ref="6 C17"),
    "C20": dict(text="Prm.tla defines the normative packing (big-endian two's complement, bit / bit-area masks, constants overlaid by defaults, constraint and type-range acceptance); TLC proves the frame lemma for every byte value x bit / bit-area position x value and the integer lemma at boundary values (MC_Prm); PrmBuilder::new / set_prm / set_prm_from_text of the real crate are recorded on random layouts (overlapping bit fields, constants underneath, duplicate names, texts) with in-range, boundary and out-of-range values and validated by TLC (C20.build/field/frame/range/error). 64-bit values travel as 16-bit limbs.", note="Trusted: TLC, harness construction of UserPrmData from public fields (prm.rs). Known finding F9 (BitArea whole-byte write) is recognised by an exact emulation and reported as KNOWN-FINDING.", technique=CALL_TECH, ref="6 C20"),
})

CHECKS.update({
    "C18": dict(text="MC_Sweep (cursor, done flag, station set, event slot) is model-checked for all responder populations over 4/5 addresses, change budget 2/3, lost replies, incl. liveness (<>[] exact list); LiveList and DpScanner run on a real FdlActiveStation against a responder population over 0..125 that changes between phases (all scanner addresses incl. 0 and 125, responders at the own address, non-DP responders, lost replies), with a logging wrapper around the application and events taken after every poll; TLC validates C18.range / alternate / spurious / ident / converge / events.", note="Trusted: harness responders (sweep.rs), TLC. Convergence is judged after 2 full sweeps of application probes without population change or lost reply (phase ends).", technique="TLA+ model of the sweep model-checked by TLC (safety + liveness) + TLC trace validation of event logs of the real applications", ref="6 C18"),
    "C19": dict(text="Gsd.tla defines the statement interpreter above the lexical layer (settings, PrmText tables, ExtUserPrmData, references resolved at use, legacy vs extended user parameters, modules, slots, Max_Module default, compact-station rule); MC_Gsd checks the post-processing rules on all statement sequences up to length 4/5; randomly generated abstract documents are rendered with lexical variation (keyword case, spacing, comments, continuations, CR/LF, hex, preamble, blank lines, repeated definitions), parsed by the real parser and the projected result is compared by TLC with Interp(doc) (C19.faithful); grammar-aware mutations of those texts and of mock.gsd plus random bytes must never panic (C19.total).", note="Trusted: harness renderer and projection (gsd.rs), TLC. The PEG / lexical layer is not modelled in TLA+ (DESIGN section 9): mutation and random bytes have the oracle 'returns without panic' only.", technique=CALL_TECH, ref="6 C19"),
})

# additions made after the first version of each check (DESIGN section 12)
DP_ADD = (" As built (DESIGN 12): Dp.tla/MC_Dp model-check the DP master operators against the reference slave with a fault budget (no unreachable!(), "
          "C08/C03/C14 monitors, liveness <>[]AllRunning); MC_DpSched prints one fault schedule per reachable model state and the real DpMaster replays them "
          "(spec -> impl); TraceDpM checks that every call-back of the real DpMaster equals the operator result (impl -> spec); driver modes edge (bursts of exactly "
          "retry lost transmissions), flags, neg, tight target rotation time, repeated enter_operate().")
RING_ADD = (" As built (DESIGN 12): layer-M jobs Ring.tla (N stations from FdlStation!DoPoll, safety + <>[]Converged), GapSweep, Turnaround; single-station "
            "schedules from MC_FdlSingle (cold, warm and held starts) replayed on the real station with poll-level conformance; ring modes ff, apps (incl. long "
            "requests, low-priority-only and SdnHigh traffic), fault, vanish, lasttx, race, claim, phase; every failing clause of an event is reported and a "
            "violation ends the judgement of its own property only.")
for _p in ("C03", "C04", "C07", "C08", "C14"):
    CHECKS[_p]["text"] += DP_ADD
for _p in ("C01", "C02", "C06", "C11", "C12", "C13", "C15"):
    CHECKS[_p]["text"] += RING_ADD
CHECKS["C05"]["text"] += (" As built (DESIGN 12): also the DP schedule replay and the byte-level fuzz driver pbv fuzz (grammar, reactive, mutational, random bytes; "
                          "application sets none / DpMaster 0..3 peripherals / LiveList / DpScanner / poll_multi) validated by TraceFuzz.")

ALL = ["C%02d" % i for i in range(1, 21)]


def main():
    checks = []
    for pid in ALL:
        if pid not in CHECKS:
            continue
        c = CHECKS[pid]
        checks.append({
            "property_id": pid,
            "quick_cmd": "./check %s --tier quick" % pid,
            "thorough_cmd": "./check %s --tier thorough" % pid,
            "evidence_file": "evidence/%s.json" % pid,
            "replay_cmd_template": "./check %s --replay {path}" % pid,
            "engine": "tlc+pbv",
            "level_claimed": {"category": c.get("category", "model_checking"), "text": c["text"], "design_ref": c["ref"]},
            "level_note": c["note"],
            "technique": c["technique"],
        })
    na = [{"property_id": p, "reason": "check not built yet in this revision of /verif (planned, see DESIGN.md section 6)"} for p in ALL if p not in CHECKS]
    man = {
        "version": 1,
        "setup_cmd": "./check setup",
        "hooks": {
            "guard": "profirust_verif",
            "enable": "RUSTFLAGS='--cfg profirust_verif' (set in /verif/harness/.cargo/config.toml; the harness has a path dependency on /repo)",
            "baseline_off_cmd": "cd /repo && cargo test --workspace --no-fail-fast --offline",
            "source_commits": ["e4b165e", "03f23c5", "52230fe"],
            "add_only": True,
        },
        "engines": [
            {"name": "tlc+pbv", "path": "check", "serves_properties": sorted(CHECKS),
             "kind_free_text": "TLA+ specifications in spec/ model-checked by TLC; Rust harness harness/ (pbv) records traces of the real code; TLC validates them against Trace*.tla"},
        ],
        "checks": checks,
        "notes": "See DESIGN.md. Exit codes of ./check: 0 held, 1 VIOLATION, 2 tool error.",
        "not_applicable": na,
    }
    with open(os.path.join(VERIF, "MANIFEST.json"), "w") as fh:
        json.dump(man, fh, indent=1)


if __name__ == "__main__":
    main()
