"""Generate MANIFEST.json from the table below (kept in one place so that it is always valid)."""
import json
import os

VERIF = os.path.dirname(os.path.dirname(os.path.abspath(__file__)))

CHECKS = {
    "C09": dict(
        text="Operator specification Codec.tla (normative frame format + model decoder) checked exhaustively by TLC on the structural grid "
             "(MC_Codec: every function code x SAP presence x boundary lengths round-trips); every recorded call of the real encoder/decoder "
             "(structural grid, random telegrams over the whole space, all 256 function-code bytes) is validated by TLC against the clauses "
             "C09.format/len/inverse/exact/fc of TraceCodec.tla. Right level: the property is about one pure function pair, so the spec is an executable "
             "normative definition and the binding is trace validation of calls.",
        note="Trusted: TLC/SANY/Json module, harness enum-to-wire mapping (codec.rs). Payload contents are randomised, structure is exhaustive only over the grid.",
        technique="TLA+ operator spec model-checked by TLC + TLC trace validation of recorded encoder/decoder calls", ref="6 C09"),
    "C10": dict(
        text="TLC proves the C10 clauses (total, inside, needmore, accept, prefix, subst) for the specification decoder on all strings up to length 6/7 over a "
             "12-symbol delimiter alphabet and all single-byte substitutions of grid frames; recorded calls of the real decoder (all 1-byte strings, 2-byte strings "
             "with delimiter first byte / all 65536 in thorough, prefix chains of valid and damaged frames, random strings up to 262 bytes, every single-byte "
             "substitution of short frames, every single-bit error) are validated by TLC against the same clauses and compared with the model decoder (conformance).",
        note="Trusted: TLC/SANY/Json module. C10.subst exempts re-framing of byte 0 as SD4/SC (no redundancy exists, DESIGN 5.6). LE>249 frames are not required to be rejected.",
        technique="TLA+ operator spec model-checked by TLC + TLC trace validation of recorded decoder calls", ref="6 C10"),
}


RING_NOTE = 'Trusted: harness virtual bus arithmetic (vbus.rs), TLC/SANY/Json module; premises of DESIGN 5.1/5.2 enforced by the driver (fault-free runs inject nothing, cold stations start together, poll period <= Tsl/4); bounds of DESIGN 5.4. Exhaustive exploration is in the layer-M model jobs listed in the evidence; beyond their constants coverage is seeded random.'
RING_TECH = "TLA+ rule monitor (BusRules.tla) as TLC trace specification over event logs of the real stack on a byte-accurate virtual bus + TLC model checking of implementation-shaped models"
CHECKS.update({
    "C01": dict(text="Every transmission of every real station in seeded random ring runs (2..5 stations, all baud rates, boundary addresses, join plans, jittered polls, traffic apps) is classified by the TLA+ rule monitor (Holder / PassSupervision / Reply / Claim) and checked for overlap, 33-bit and 11-bit idle times with 1 us tolerance; TLC validates each event log against TraceBus.tla.", note=RING_NOTE, technique=RING_TECH, ref="6 C01"),
    "C02": dict(text="Same runs: after the last population event the monitor requires agreement of all public LAS/NS/PS views plus 2N tokens in address order before the Bconv deadline (C02.converge), and rejects any later deviation (C02.stable, C02.order).", note=RING_NOTE, technique=RING_TECH, ref="6 C02"),
    "C06": dict(text="Fault-plan runs (1..4 dropped/garbled/truncated telegrams for one or all receivers, crash incl. mid-transmission, restart, un-synchronised cold start): after FaultsEnd the monitor requires recovery (views agree, 2N ordered tokens) within Brec, then stability, single token (C06.single) and a live bus (C06.alive).", note=RING_NOTE, technique=RING_TECH, ref="6 C06"),
    "C11": dict(text="Token acceptance (predecessor or second offer, never while listening), retry count <= 3, slot-time supervision, successor removal only when silent, never when heard - judged on every token on the wire of the ring runs from wire bytes and public views.", note=RING_NOTE, technique=RING_TECH, ref="6 C11"),
    "C12": dict(text="Every GAP poll of the ring runs is checked against the strict (TS,NS) range, one per visit, cadence bound, successor promotion; every status reply against the replier's public view; ready only after claim or two identical rotations.", note=RING_NOTE, technique=RING_TECH, ref="6 C12"),
    "C13": dict(text="Ring runs with traffic applications and TTR down to 256 bit: every application message cycle after the first of a visit must start before previous token receipt + TTR + one poll period.", note=RING_NOTE, technique=RING_TECH, ref="6 C13"),
    "C15": dict(text="Instrumented applications in the ring runs: transmit call-backs only for the wire holder with no request outstanding, exactly one matching reply/time-out per request, reply form, round-robin order modulo number of apps, no second turn after decline.", note=RING_NOTE, technique=RING_TECH, ref="6 C15"),
})

ALL = ["C%02d" % i for i in range(1, 21)]


def main():
    checks = []
    for pid in ALL:
        if pid not in CHECKS:
            continue
        c = CHECKS[pid]
        checks.append({
            "property_id": pid,
            "quick_cmd": "./check %s --tier quick" % pid,
            "thorough_cmd": "./check %s --tier thorough" % pid,
            "evidence_file": "evidence/%s.json" % pid,
            "replay_cmd_template": "./check %s --replay {path}" % pid,
            "engine": "tlc+pbv",
            "level_claimed": {"category": c.get("category", "model_checking"), "text": c["text"], "design_ref": c["ref"]},
            "level_note": c["note"],
            "technique": c["technique"],
        })
    na = [{"property_id": p, "reason": "check not built yet in this revision of /verif (planned, see DESIGN.md section 6)"} for p in ALL if p not in CHECKS]
    man = {
        "version": 1,
        "setup_cmd": "./check setup",
        "hooks": {
            "guard": "profirust_verif",
            "enable": "RUSTFLAGS='--cfg profirust_verif' (set in /verif/harness/.cargo/config.toml; the harness has a path dependency on /repo)",
            "baseline_off_cmd": "cd /repo && cargo test --workspace --no-fail-fast --offline",
            "source_commits": [],
            "add_only": True,
        },
        "engines": [
            {"name": "tlc+pbv", "path": "check", "serves_properties": sorted(CHECKS),
             "kind_free_text": "TLA+ specifications in spec/ model-checked by TLC; Rust harness harness/ (pbv) records traces of the real code; TLC validates them against Trace*.tla"},
        ],
        "checks": checks,
        "notes": "See DESIGN.md. Exit codes of ./check: 0 held, 1 VIOLATION, 2 tool error.",
        "not_applicable": na,
    }
    with open(os.path.join(VERIF, "MANIFEST.json"), "w") as fh:
        json.dump(man, fh, indent=1)


if __name__ == "__main__":
    main()
