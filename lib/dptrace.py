#!/usr/bin/env python3
"""Compact printer for a TLC counterexample of MC_Dp.tla: dptrace.py <tlc output> [from-state]"""
import re, sys
t = open(sys.argv[1]).read()
lo = int(sys.argv[2]) if len(sys.argv) > 2 else 1
states = re.split(r'\nState (\d+): ', t)
for i in range(1, len(states), 2):
    n = int(states[i]); b = states[i + 1]
    if n < lo:
        continue
    act = re.sub(r' line.*', '', b.split('\n')[0])[1:12]
    b1 = re.sub(r'\s+', ' ', b)
    mm = re.search(r'/\\ m = (.*?) /\\ out', b1)
    per = re.findall(r'\[ ?st \|-> "(\w+)", fcb \|-> "(\w+)", dn \|-> (\w+), rc \|-> (\d+), dif \|-> (\w+)', mm.group(1)) if mm else []
    cyc = re.search(r'cyc \|-> (-?\d+)', b1)
    ev = re.search(r'ev \|-> \[p \|-> (\d+), e \|-> "(\w+)", cc \|-> (\w+)', b1)
    out = re.search(r'/\\ out = \[svc \|-> "(\w+)", fcb \|-> "(\w+)", p \|-> (\d+)', b1)
    sl = re.findall(r'\[ ?st \|-> "(\w+)", sf \|-> "(\w+)", last \|-> \[.*?\], pw \|-> (\w+), dp \|-> (\w+)', b1)
    stage = re.findall(r'stage \|-> (\d+)', b1)
    live = re.findall(r'live \|-> (\w+)', b1)
    bad = re.search(r'/\\ bad = "([\w.]+)"', b1)
    f = re.search(r'/\\ faults = (\d+)', b1)
    print(n, act, "cyc", cyc.group(1) if cyc else '?', "out", (out.group(3) + ":" + out.group(1) + "/" + out.group(2)) if out else '?',
          "| M", ' '.join("%s/%s/rc%s%s%s" % (p[0][:6], p[1][:2], p[3], "+dn" if p[2] == "TRUE" else "", "+dif" if p[4] == "TRUE" else "") for p in per),
          "| S", ' '.join("%s/%s%s%s" % (s[0], s[1], "" if s[2] == "TRUE" else "/off", "/dp" if s[3] == "TRUE" else "") for s in sl),
          "| ev", (ev.group(1) + ev.group(2) + ("+cc" if ev.group(3) == "TRUE" else "")) if ev else '', "| stage", ''.join(stage), "live", ''.join(x[0] for x in live), "f", f.group(1) if f else '', bad.group(1) if bad else '')
m = re.search(r'Back to state (\d+)', t)
if m:
    print("loop back to", m.group(1))
