#!/bin/bash
# usage: lib/confirm_seed.sh <worktree> <outdir> [gsd]  -- confirm a seeded change: suite passes with it, demo fails with it and passes without it
w=$1; o=$2; kind=${3:-core}
cd $w || exit 2
if [ "$kind" = gsd ]; then src="gsd-parser/src"; tdir="gsd-parser/tests"; pkg="-p gsd-parser"; else src="src"; tdir="tests"; pkg=""; fi
git checkout -q -- $src; git apply $o/patch.diff || exit 2
mkdir -p $tdir; rm -f $tdir/seeded_demo.rs
echo "--- suite with change (demo excluded)"
cargo test --workspace --no-fail-fast --offline 2>&1 | grep -E "^test result" | awk '{p+=$4; f+=$6} END {print "passed="p" failed="f}'
cp $o/seeded_demo.rs $tdir/seeded_demo.rs
echo "--- demo with change"
cargo test --offline $pkg --test seeded_demo 2>&1 | grep -E "^test result" | head -2
git checkout -q -- $src
echo "--- demo without change"
cargo test --offline $pkg --test seeded_demo 2>&1 | grep -E "^test result" | head -2
git apply $o/patch.diff
