#!/bin/bash
# usage: lib/confirm_seed.sh <worktree> <outdir>  -- confirm a seeded change: suite passes with it, demo fails with it and passes without it
w=$1; o=$2
cd $w || exit 2
git checkout -q -- src; git apply $o/patch.diff || exit 2
mkdir -p tests; cp $o/seeded_demo.rs tests/seeded_demo.rs
echo "--- suite with change (demo excluded)"
mv tests/seeded_demo.rs /tmp/_demo_$$.rs
cargo test --workspace --no-fail-fast --offline 2>&1 | grep -E "^test result" | awk '{p+=$4; f+=$6} END {print "passed="p" failed="f}'
mv /tmp/_demo_$$.rs tests/seeded_demo.rs
echo "--- demo with change"
cargo test --offline --test seeded_demo 2>&1 | grep -E "^test result" | head -2
git checkout -q -- src
echo "--- demo without change"
cargo test --offline --test seeded_demo 2>&1 | grep -E "^test result" | head -2
git apply $o/patch.diff
