"""C01 C02 C06 C11 C12 C13 C15: real FdlActiveStations on the virtual bus (pbv ring), traces
validated by TraceBus.tla (rule monitor BusRules.tla); layer-M model jobs per property."""
import json
import os

import core

# (mode, number of runs) per tier; every job is one driver process writing several runs
PLAN = {
    "quick": [("ff", 28), ("apps", 16), ("fault", 16), ("vanish", 12), ("lasttx", 10), ("race", 6), ("claim", 1), ("phase", 6)],
    "thorough": [("ff", 150), ("apps", 80), ("fault", 100), ("vanish", 80), ("lasttx", 60), ("race", 30), ("claim", 1), ("phase", 14)],
}
RUNS_PER_JOB = {"quick": 2, "thorough": 5}

# which modes carry evidence for which property (all traces are validated against all clauses)
SERVES = {
    "C01": ("ff", "apps", "claim", "phase"), "C02": ("ff", "apps"), "C11": ("ff", "apps"), "C12": ("ff", "apps"), "C13": ("apps", "ff"), "C15": ("apps", "ff"),
    "C06": ("fault", "vanish", "lasttx", "race"), "C05": None,
}


def ring_results(tier):
    """Run (or fetch from the cache) the ring simulations of this tier and their validation."""
    seed = core.seed()
    key = core.source_hash([os.path.join(core.SPEC, f) for f in ("BusRules.tla", "TraceBus.tla")])
    d = core.workdir("ring", tier)
    cache = os.path.join(d, "results_%s_%d.json" % (key, seed))
    if os.path.exists(cache):
        with open(cache) as fh:
            return json.load(fh)
    d = core.workdir("ring", tier, clean=True)
    jobs = []
    per = RUNS_PER_JOB[tier]
    for mode, n in PLAN[tier]:
        k = 0
        while k < n:
            m = min(per, n - k)
            if mode == "phase":       # one job per seed; --runs is the number of phase steps per station
                m = 1
            out = os.path.join(d, "%s_%03d.ndjson" % (mode, k))
            jobs.append((["ring", "--mode", mode, "--tier", tier, "--seed", seed * 7919 + k, "--runs", (5 if tier == "quick" else 8) if mode == "phase" else m], out, mode))
            k += m
    core.run_drivers([(a, o) for a, o, _ in jobs])
    results = core.tlc_traces("TraceBus", "TraceBus.cfg", [o for _, o, _ in jobs])
    files = []
    for (args, out, mode), res in zip(jobs, results):
        res["mode"] = mode
        res["driver_args"] = args
        files.append(res)
    with open(cache, "w") as fh:
        json.dump(files, fh)
    return files


def feed(rep, files, modes=None):
    """Feed validation results into a report; returns number of runs."""
    for res in files:
        def info(b, res=res):
            ln = b["l"]
            ctx = core.read_lines(res["file"], range(max(1, ln - 12), ln + 1))
            cfg = None
            with open(res["file"]) as fh:
                for i, l in enumerate(fh, 1):
                    if i > ln:
                        break
                    if '"ev":"Cfg"' in l:
                        cfg = json.loads(l)
            return {"driver_args": res["driver_args"], "trace": res["file"], "line": ln, "cfg": cfg,
                    "context": [ctx[k] for k in sorted(ctx)], "tracespec": "TraceBus"}
        rep.add_trace_result(res, info)
        if modes is None or res["mode"] in modes:
            rep.traces += res.get("runs", 0)
    return rep.traces


def sample_events(files, mode, n=3):
    for res in files:
        if res["mode"] == mode:
            out = []
            with open(res["file"]) as fh:
                for l in fh:
                    e = json.loads(l)
                    if e["ev"] in ("Cfg", "Tx", "Poll") and len(out) < n:
                        if e["ev"] != "Cfg" or not out:
                            out.append(e)
            return out
    return []


USES_SINGLE = ("C05", "C11", "C12", "C13", "C15")


def feed_single(rep, tier):
    import p_single
    data = p_single.single_results(tier)
    rep.states += data["model_states"]
    rep.transitions += data["model_transitions"]
    rep.model_runs += data["models"]
    if data["counterexamples"]:
        rep.extra["model_counterexamples"] = data["counterexamples"]
    rep.extra["schedules_replayed"] = data["schedules"]
    for res in data["files"]:
        res = dict(res, file=res["file"])
        feed(rep, [res], None)
    return data


FUZZ_PLAN = {"quick": (8, 6), "thorough": (14, 30)}     # (jobs, runs per job)


def fuzz_results(tier):
    """byte-level fuzzing of poll()/poll_multi() with every application set (pbv fuzz), validated by TraceFuzz"""
    seed = core.seed()
    d = core.workdir("fuzz", tier, clean=True)
    njobs, runs = FUZZ_PLAN[tier]
    jobs = [(["fuzz", "--tier", tier, "--seed", seed * 6151 + k, "--runs", runs], os.path.join(d, "fuzz_%02d.ndjson" % k)) for k in range(njobs)]
    core.run_drivers(jobs)
    results = core.tlc_traces("TraceFuzz", "TraceFuzz.cfg", [o for _, o in jobs])
    for (args, out), res in zip(jobs, results):
        res["driver_args"] = args
        res["runs"] = runs
    return results


def feed_fuzz(rep, files):
    tot = {}
    for res in files:
        def info(b, res=res):
            ln = b["l"]
            ctx = core.read_lines(res["file"], range(max(1, ln - 2), ln + 1))
            return {"driver_args": res["driver_args"], "trace": res["file"], "line": ln, "context": [ctx[k] for k in sorted(ctx)], "tracespec": "TraceFuzz"}
        cov = res.pop("cov", {})
        for k, v in cov.items():
            tot[k] = tot.get(k, 0) + v
        rep.add_trace_result(dict(res, cov={}), info)
        rep.traces += res.get("runs", 0)
    rep.extra["fuzz"] = tot


def run(prop, tier):
    import p_models
    rep = core.Report(prop, tier)
    for job in p_models.jobs(prop, tier):
        p_models.run_job(rep, job)
    if prop in USES_SINGLE:
        feed_single(rep, tier)
    if prop == "C05":
        import p_dp
        p_dp.feed(rep, p_dp.dp_results(tier))
        feed_fuzz(rep, fuzz_results(tier))
    files = ring_results(tier)
    feed(rep, files, SERVES.get(prop))
    rep.samples = sample_events(files, (SERVES.get(prop) or ("ff",))[0])
    rep.assumptions = ["harness virtual bus arithmetic (vbus.rs), TLC/SANY/Json module",
                       "premises of DESIGN 5.1/5.2: fault-free runs inject nothing; cold stations start together; poll period <= Tsl/4",
                       "bounds Bconv/Brec of DESIGN 5.4"]
    return rep.finish({"rule": "seeded random ring runs of the real stack; one trace = one run; non-trivial = clause counters in 'clauses'"})


def replay(prop, path):
    with open(path) as fh:
        info = json.load(fh)
    d = core.workdir("replay_run", clean=True)
    out = os.path.join(d, "trace.ndjson")
    core.run_driver(info["driver_args"], out)
    rep = core.Report(prop, "quick")
    res = core.tlc_trace(info.get("tracespec", "TraceBus"), info.get("tracespec", "TraceBus") + ".cfg", out)
    res["driver_args"] = info["driver_args"]
    res["mode"] = "replay"
    feed(rep, [res])
    rep.samples = [info.get("cfg")]
    return rep.finish()
