"""Operator-specification properties (C16 C17 C18 C19 C20): a TLA+ module defines the function /
small machine, TLC checks its clauses on the operators (model job), the harness records calls of
the real code, TLC validates the records (trace spec)."""
import json
import os

import core

CONF = {
    "C16": dict(driver="rx", spec="TraceRx", deps=["RxPath.tla", "Codec.tla", "TraceRx.tla", "MC_RxPath.tla"],
                jobs={"quick": [dict(runs=60)] * 6, "thorough": [dict(runs=300)] * 14},
                models={"quick": [("MC_RxPath", "MC_RxPath_quick.cfg")], "thorough": [("MC_RxPath", "MC_RxPath_thorough.cfg")]},
                split=None),
    "C17": dict(driver="diag", spec="TraceDiag", deps=["Diag.tla", "TraceDiag.tla", "MC_Diag.tla"],
                jobs={"quick": [dict(part=i, parts=6) for i in range(6)], "thorough": [dict(part=i, parts=14) for i in range(14)]},
                models={"quick": [("MC_Diag", "MC_Diag_quick.cfg")], "thorough": [("MC_Diag", "MC_Diag_thorough.cfg")]},
                split=None, same_seed=True),
    "C20": dict(driver="prm", spec="TracePrm", deps=["Prm.tla", "TracePrm.tla"],
                jobs={"quick": [dict(runs=250)] * 6, "thorough": [dict(runs=3000)] * 14},
                models={"quick": [("MC_Prm", "MC_Prm_quick.cfg")], "thorough": [("MC_Prm", "MC_Prm_thorough.cfg")]},
                split=None),
    "C18": dict(driver="sweep", spec="TraceSweep", deps=["SweepRules.tla", "TraceSweep.tla", "MC_Sweep.tla"],
                jobs={"quick": [dict(runs=2)] * 8, "thorough": [dict(runs=8)] * 14},
                models={"quick": [("MC_Sweep", "MC_Sweep_quick.cfg")], "thorough": [("MC_Sweep", "MC_Sweep_thorough.cfg")]},
                split=None),
    "C19": dict(driver="gsd", spec="TraceGsd", deps=["Gsd.tla", "TraceGsd.tla", "MC_Gsd.tla"],
                jobs={"quick": [dict(runs=80, fuzz=1500)] * 6, "thorough": [dict(runs=1500, fuzz=20000)] * 14},
                models={"quick": [("MC_Gsd", "MC_Gsd_quick.cfg")], "thorough": [("MC_Gsd", "MC_Gsd_thorough.cfg")]},
                split=None),
}


def run(prop, tier):
    c = CONF[prop]
    rep = core.Report(prop, tier)
    for module, cfg in c["models"][tier]:
        r = core.tlc_model(module, cfg, workers=8, timeout=3000)
        rep.add_model(r)
        if not r["ok"]:
            raise core.ToolError("operator specification %s/%s violates its own clauses:\n%s" % (module, cfg, r["error"][:3000]))
    seed = core.seed()
    d = core.workdir(prop, tier, clean=True)
    jobs = []
    for k, j in enumerate(c["jobs"][tier]):
        out = os.path.join(d, "%s_%02d.ndjson" % (c["driver"], k))
        args = [c["driver"], "--tier", tier, "--seed", seed * 7001 + (0 if c.get("same_seed") else k)]
        for key, v in j.items():
            args += ["--" + key, v]
        jobs.append((args, out))
    core.run_drivers(jobs)
    todo = []
    for args, out in jobs:
        if c.get("split"):
            for part, linemap in core.split_trace(out, c["split"]["n"], carry_events=c["split"].get("carry", ()), boundary=c["split"].get("boundary")):
                todo.append((part, linemap, args, out))
        else:
            todo.append((out, None, args, out))
    results = core.tlc_traces(c["spec"], c["spec"] + ".cfg", [t[0] for t in todo])
    for (part, linemap, args, out), res in zip(todo, results):
        def info(b, part=part, linemap=linemap, args=args, out=out):
            ln = linemap[b["l"] - 1] if linemap else b["l"]
            ctx = core.read_lines(out, range(max(1, ln - 6), ln + 1))
            return {"driver_args": args, "trace": out, "line": ln, "context": [ctx[k] for k in sorted(ctx)], "tracespec": c["spec"]}
        rep.add_trace_result(res, info)
        rep.traces += 1
    with open(jobs[0][1]) as fh:
        rep.samples = []
        for _ in range(3):
            try:
                rep.samples.append(json.loads(next(fh)))
            except StopIteration:
                break
    rep.assumptions = ["TLC/SANY/Json module", "harness recording of calls (%s.rs)" % c["driver"]]
    return rep.finish({"rule": "recorded calls of the real code validated against the operator specification; see clauses"})


def replay(prop, path):
    c = CONF[prop]
    with open(path) as fh:
        info = json.load(fh)
    d = core.workdir("replay_run", clean=True)
    out = os.path.join(d, "trace.ndjson")
    core.run_driver(info["driver_args"], out)
    rep = core.Report(prop, "quick")
    res = core.tlc_trace(c["spec"], c["spec"] + ".cfg", out)
    rep.add_trace_result(res, lambda b: {"driver_args": info["driver_args"], "line": b["l"]})
    rep.traces += 1
    rep.samples = [info.get("context")]
    return rep.finish()
