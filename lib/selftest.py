"""./check selftest: self-tests of the binding (DESIGN 8.4).

For every trace specification: record a short trace of the real code, check that TLC accepts it,
then corrupt it in ways the specification must notice - drop a recorded event, flip a recorded
field - and require that TLC rejects every corrupted copy (a clause is violated or, for the
model-conformance part of TraceBus, an event is no longer explained).  A trace spec that accepts a
corrupted trace is not bound to the code and the self-test fails (exit 2: tool error, not a
property violation).  The outcome is written to evidence/selftest.json."""
import copy
import json
import os

import core


def fcs(b):
    """recompute the checksum of an SD2/SD1/SD3 frame in place"""
    if b[0] == 104:
        b[-2] = sum(b[4:-2]) % 256
    elif b[0] in (16, 162):
        b[-2] = sum(b[1:-2]) % 256
    return b


def first_run(evs):
    out = []
    for e in evs:
        out.append(e)
        if e.get("ev") == "Reset":
            break
    return out


def find(evs, pred, nth=0, frm=0.0):
    start = int(len(evs) * frm)
    k = 0
    for i in range(start, len(evs)):
        if pred(evs[i]):
            if k == nth:
                return i
            k += 1
    return None


def is_tx(e, env=None):
    return e.get("ev") == "Tx" and (env is None or bool(e.get("env")) == env)


def is_token(e):
    return is_tx(e) and len(e["b"]) == 3 and e["b"][0] == 220


# ---------------------------------------------------------------------------- mutations
# each returns a mutated deep copy of the event list or None when not applicable

def m_drop(pred, frm=0.0, nth=0):
    def f(evs):
        i = find(evs, pred, nth, frm)
        if i is None:
            return None
        return evs[:i] + evs[i + 1:]
    return f


def m_edit(pred, edit, frm=0.0, nth=0):
    def f(evs):
        i = find(evs, pred, nth, frm)
        if i is None:
            return None
        evs = copy.deepcopy(evs)
        r = edit(evs[i], evs, i)
        return None if r is False else evs
    return f


def m_drop_answered_status(evs):
    txs = [i for i, e in enumerate(evs) if is_tx(e)]
    for a, b in zip(txs, txs[1:]):
        ra, rb = evs[a]["b"], evs[b]["b"]
        if len(ra) == 6 and ra[0] == 16 and (ra[3] & 0x4F) == 0x49 and len(rb) == 6 and rb[0] == 16 and rb[2] == ra[1] and rb[1] == ra[2] and not (rb[3] & 0x40):
            return evs[:a] + evs[a + 1:]
    return None


def e_overlap(e, evs, i):
    j = i - 1
    while j >= 0 and evs[j].get("ev") != "Tx":
        j -= 1
    if j < 0:
        return False
    d = e["t1"] - e["t0"]
    e["t0"] = evs[j]["t0"] + 12
    e["t1"] = e["t0"] + d


def e_token_to_other(e, evs, i):
    cfg = evs[0]
    others = [s for s in cfg["stations"] if s not in (e["b"][1], e["b"][2])] + [a for a in range(cfg["hsa"]) if a not in cfg["stations"]]
    if not others:
        return False
    e["b"][1] = others[0]


def e_las(e, evs, i):
    if len(e["post"]["las"]) < 2:
        return False
    e["post"]["las"] = e["post"]["las"][:-1]


def e_fcb(e, evs, i):
    k = 6 if e["b"][0] == 104 else 3
    e["b"][k] ^= 0x20
    fcs(e["b"])


def e_pii(e, evs, i):
    for p in e["pii"]:
        if p:
            p[0] = (p[0] + 1) % 256
            return
    return False


def is_sd2_dsap(e, dsap, env=False):
    return is_tx(e, env) and e["b"][0] == 104 and len(e["b"]) > 9 and (e["b"][4] & 0x80) and e["b"][7] == dsap


def is_dx_req(e):
    b = e.get("b", [])
    return is_tx(e, False) and b and b[0] in (104, 162, 16) and not ((b[4] if b[0] == 104 else b[1]) & 0x80) and ((b[6] if b[0] == 104 else b[3]) & 0x4F) == 0x4D


FAMILIES = {
    "TraceBus": dict(
        driver=["ring", "--mode", "ff", "--tier", "quick", "--runs", 1], cfg="TraceBus.cfg",
        mutations=[
            ("drop a token pass (the next holder then transmits without the token)", m_drop(lambda e: is_token(e) and e["b"][1] != e["b"][2], frm=0.7)),
            ("move a telegram onto the previous one (overlap)", m_edit(lambda e: is_tx(e), e_overlap, frm=0.7, nth=3)),
            ("address a token pass to a different station", m_edit(lambda e: is_token(e) and e["b"][1] != e["b"][2], e_token_to_other, frm=0.7)),
            ("shrink the LAS in one recorded station view (conformance)", m_edit(lambda e: e.get("ev") == "Poll" and len(e["post"]["las"]) >= 2, e_las, frm=0.5)),
            ("drop a GAP status request but keep its reply", m_drop_answered_status),
        ]),
    "TraceDp": dict(
        driver=["dp", "--mode", "clean", "--tier", "quick", "--runs", 1], cfg="TraceDp.cfg",
        mutations=[
            ("drop the first Set_Prm request", m_drop(lambda e: is_sd2_dsap(e, 61))),
            ("drop the first Chk_Cfg request", m_drop(lambda e: is_sd2_dsap(e, 62))),
            ("flip the frame count bit of a Data_Exchange request", m_edit(is_dx_req, e_fcb, nth=3)),
            ("change an input image byte in a recorded master view", m_edit(lambda e: e.get("ev") == "Dp" and any(e["pii"]), e_pii, frm=0.8)),
            ("change the ident number inside the first Set_Prm request", m_edit(lambda e: is_sd2_dsap(e, 61), lambda e, evs, i: (e["b"].__setitem__(13, e["b"][13] ^ 1), fcs(e["b"])) and None)),
        ]),
    "TraceCodec": dict(
        driver=["codec", "--part", "enc", "--tier", "quick"], cfg="TraceCodec.cfg", head=400,
        mutations=[
            ("flip one byte of an encoder output", m_edit(lambda e: e.get("ev") == "Enc" and e.get("bytes"), lambda e, evs, i: e["bytes"].__setitem__(len(e["bytes"]) // 2, e["bytes"][len(e["bytes"]) // 2] ^ 1), nth=5)),
            ("report one byte less as written", m_edit(lambda e: e.get("ev") == "Enc" and e.get("n", 0) > 0, lambda e, evs, i: e.__setitem__("n", e["n"] - 1), nth=5)),
        ]),
    "TraceRx": dict(
        driver=["rx", "--tier", "quick", "--runs", 6], cfg="TraceRx.cfg",
        mutations=[
            ("drop one delivered telegram from a call-back list", m_edit(lambda e: e.get("ev") == "Call" and e.get("cbs"), lambda e, evs, i: e["cbs"].pop(0))),
            ("deliver a telegram twice", m_edit(lambda e: e.get("ev") == "Call" and e.get("cbs"), lambda e, evs, i: e["cbs"].append(copy.deepcopy(e["cbs"][-1])))),
            ("drop a call that delivered something", m_drop(lambda e: e.get("ev") == "Call" and e.get("cbs"))),
        ]),
    "TraceDiag": dict(
        driver=["diag", "--tier", "quick", "--part", 0, "--parts", 40], cfg="TraceDiag.cfg", head=400,
        mutations=[
            ("change the reported ident number", m_edit(lambda e: e.get("ev") == "Diag", lambda e, evs, i: e.__setitem__("ident", e["ident"] ^ 256), nth=7)),
            ("set a flag that the reply does not carry", m_edit(lambda e: e.get("ev") == "Diag", lambda e, evs, i: e.__setitem__("flags", e["flags"] ^ 1), nth=7)),
            ("drop a reported block", m_edit(lambda e: e.get("ev") == "Diag" and e.get("blocks"), lambda e, evs, i: e["blocks"].pop())),
        ]),
    "TracePrm": dict(
        driver=["prm", "--tier", "quick", "--runs", 8], cfg="TracePrm.cfg",
        mutations=[
            ("flip one bit of the block after an accepted set_prm", m_edit(lambda e: e.get("ev") == "Set" and e.get("res") == "ok" and e["post"], lambda e, evs, i: e["post"].__setitem__(0, e["post"][0] ^ 0x10))),
            ("turn a rejected call into an accepted one", m_edit(lambda e: e.get("ev") == "Set" and e.get("res") == "range", lambda e, evs, i: e.__setitem__("res", "ok"))),
        ]),
    "TraceGsd": dict(
        driver=["gsd", "--tier", "quick", "--runs", 4, "--fuzz", 10], cfg="TraceGsd.cfg",
        mutations=[
            ("change a value of the returned description", None),  # filled in below (needs the event shape)
        ]),
    "TraceSweep": dict(
        driver=["sweep", "--tier", "quick", "--runs", 2], cfg="TraceSweep.cfg",
        mutations=[
            ("drop a Found event", m_drop(lambda e: e.get("ev") == "Ev" and e.get("k") == "Found", nth=1)),
            ("probe address 126", m_edit(lambda e: is_tx(e, False) and e.get("app") and len(e["b"]) == 6, lambda e, evs, i: (e["b"].__setitem__(1, 126), fcs(e["b"])) and None, nth=4)),
            ("report Lost for a station that still answers", m_edit(lambda e: e.get("ev") == "Ev" and e.get("k") == "Found", lambda e, evs, i: e.__setitem__("k", "Lost"), nth=1)),
        ]),
}


def _gsd_edit(e, evs, i):
    """change the first numeric leaf of the parsed result"""
    def walk(x):
        if isinstance(x, dict):
            for k in sorted(x):
                if isinstance(x[k], bool):
                    continue
                if isinstance(x[k], int):
                    x[k] += 1
                    return True
                if walk(x[k]):
                    return True
        elif isinstance(x, list):
            for k in range(len(x)):
                if isinstance(x[k], bool):
                    continue
                if isinstance(x[k], int):
                    x[k] += 1
                    return True
                if walk(x[k]):
                    return True
        return False
    for key in ("proj",):
        if key in e and walk(e[key]):
            return
    return False


FAMILIES["TraceGsd"]["mutations"][0] = ("change a value of the returned description",
                                        m_edit(lambda e: isinstance(e.get("proj"), dict) and e.get("ok"), _gsd_edit))


def rejected(res, n_events):
    conf = res.get("conf") or {}
    drift = isinstance(conf, dict) and conf.get("n", 0) > conf.get("ok", conf.get("n", 0))
    return bool(res.get("bad")) or drift


def run():
    core.build_harness()
    d = core.workdir("selftest", clean=True)
    seed = core.seed()
    report = {"families": {}, "ok": True}
    for spec, fam in FAMILIES.items():
        base = os.path.join(d, spec + "_base.ndjson")
        core.run_driver(fam["driver"] + ["--seed", seed * 31 + 5], base)
        with open(base) as fh:
            evs = [json.loads(l) for l in fh if l.strip()]
        evs = first_run(evs)
        if fam.get("head"):
            evs = evs[:fam["head"]]
        with open(base, "w") as fh:
            for e in evs:
                fh.write(json.dumps(e, separators=(",", ":")) + "\n")
        res0 = core.tlc_trace(spec, fam["cfg"], base)
        entry = {"events": len(evs), "baseline_accepted": not rejected(res0, len(evs)), "mutations": []}
        if not entry["baseline_accepted"]:
            # a rejection of the unmodified trace is the business of the property checks; the self-test only needs a clean baseline
            core.log("selftest %s: baseline trace is itself rejected (%s); mutations compared against it" % (spec, [b.get("clause") for b in res0.get("bad", [])][:3]))
        for k, (name, mut) in enumerate(fam["mutations"]):
            m = mut(evs) if mut else None
            if m is None:
                entry["mutations"].append({"name": name, "applicable": False})
                core.log("selftest %s: mutation not applicable: %s" % (spec, name))
                report["ok"] = False
                continue
            path = os.path.join(d, "%s_m%d.ndjson" % (spec, k))
            with open(path, "w") as fh:
                for e in m:
                    fh.write(json.dumps(e, separators=(",", ":")) + "\n")
            res = core.tlc_trace(spec, fam["cfg"], path)
            new_bad = [b for b in res.get("bad", []) if b.get("clause") not in {x.get("clause") for x in res0.get("bad", [])}] if not entry["baseline_accepted"] else res.get("bad", [])
            rej = rejected(res, len(m)) and (entry["baseline_accepted"] or bool(new_bad) or rejected(res, len(m)) != rejected(res0, len(evs)))
            entry["mutations"].append({"name": name, "applicable": True, "rejected": rej,
                                       "clauses": sorted({b.get("clause", "?") for b in res.get("bad", [])}), "conf": res.get("conf")})
            core.log("selftest %-10s %-70s -> %s %s" % (spec, name[:70], "rejected" if rej else "ACCEPTED (binding too weak)", sorted({b.get("clause", "?") for b in res.get("bad", [])})[:3]))
            if not rej:
                report["ok"] = False
        report["families"][spec] = entry
    os.makedirs(os.path.join(core.VERIF, "evidence"), exist_ok=True)
    with open(os.path.join(core.VERIF, "evidence", "selftest.json"), "w") as fh:
        json.dump(report, fh, indent=1)
    core.log("selftest: %s" % ("all corrupted traces rejected" if report["ok"] else "SOME CORRUPTED TRACES WERE ACCEPTED"))
    return 0 if report["ok"] else 2
