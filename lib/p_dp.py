"""C03 C04 C07 C08 C14: real FdlActiveStation + DpMaster against reference slaves behind a lossy /
substituting channel (pbv dp), traces validated by TraceDp.tla (rule monitor DpRules.tla);
layer-M model MC_Dp explored by TLC."""
import json
import re
import os

import core

PLAN = {
    "quick": [("random", 60), ("clean", 8), ("empty", 2), ("neg", 10), ("flags", 10), ("edge", 20)],
    "thorough": [("random", 1200), ("clean", 60), ("empty", 6), ("neg", 100), ("flags", 100), ("edge", 200)],
}
RUNS_PER_JOB = {"quick": 5, "thorough": 25}


SCHED_CFG = {"quick": ["MC_DpSched_quick.cfg"], "thorough": ["MC_DpSched_thorough.cfg", "MC_DpSched_np2.cfg"]}
_SCHED = re.compile(r'^<<"SCHED", "(.*)">>\s*$', re.M)


def dp_schedules(tier, d, nchunks):
    """spec -> impl: TLC prints one shortest fault schedule per reachable state of MC_DpSched; the leaves of that
    shortest-path tree (schedules that are no prefix of another one) cover every state and are replayed on the real
    DpMaster against the reference slave.  Returns (chunk files, number of schedules, model results)."""
    leaves = []
    models = []
    for cfg in SCHED_CFG[tier]:
        r = core.tlc_model("MC_DpSched", cfg, workers=1, timeout=3000, xmx="8g")
        models.append(r)
        hs = []
        for m in _SCHED.finditer(r["output"]):
            j = json.loads(core._unescape(m.group(1)))
            j.pop("key", None)
            hs.append(j)
        key = lambda j: tuple((i["k"], i["p"], i["r"]) for i in j["h"])
        pref = set()
        for j in hs:
            h = key(j)
            for k in range(1, len(h)):
                pref.add(h[:k])
        leaves += [j for j in hs if key(j) not in pref]
    files = []
    for c in range(nchunks):
        path = os.path.join(d, "sched_%02d.ndjson" % c)
        with open(path, "w") as fh:
            for j in leaves[c::nchunks]:
                fh.write(json.dumps(j) + "\n")
        files.append(path)
    return files, len(leaves), models


def dp_results(tier):
    seed = core.seed()
    key = core.source_hash([os.path.join(core.SPEC, f) for f in ("DpRules.tla", "TraceDp.tla", "Codec.tla", "Dp.tla", "TraceDpM.tla")] + [os.path.abspath(__file__)])
    d = core.workdir("dp", tier)
    cache = os.path.join(d, "results_%s_%d.json" % (key, seed))
    if os.path.exists(cache):
        with open(cache) as fh:
            return json.load(fh)
    d = core.workdir("dp", tier, clean=True)
    jobs = []
    per = RUNS_PER_JOB[tier]
    for mode, n in PLAN[tier]:
        k = 0
        while k < n:
            m = min(per, n - k)
            out = os.path.join(d, "%s_%03d.ndjson" % (mode, k))
            jobs.append((["dp", "--mode", mode, "--tier", tier, "--seed", seed * 104729 + k, "--runs", m, "--mout", out + ".m"], out, mode))
            k += m
    sfiles, nsched, smodels = dp_schedules(tier, d, 12 if tier == "quick" else 14)
    for c, sf in enumerate(sfiles):
        out = os.path.join(d, "replay_%02d.ndjson" % c)
        jobs.append((["dp", "--sched", sf, "--tier", tier, "--seed", seed * 104729 + 7000 + c, "--mout", out + ".m"], out, "sched"))
    infos = core.run_drivers([(a, o) for a, o, _ in jobs])
    results = core.tlc_traces("TraceDp", "TraceDp.cfg", [o for _, o, _ in jobs])
    # conformance of the real DpMaster with the layer-M operators (Dp.tla): every recorded call-back
    mres = core.tlc_traces("TraceDpM", "TraceDpM.cfg", [o + ".m" for _, o, _ in jobs])
    for res, mr in zip(results, mres):
        ncalls = sum(mr.get("cov", {}).values())
        res["conf"] = {"n": ncalls, "ok": ncalls - len({b["l"] for b in mr.get("bad", [])})}
        res["mcov"] = mr.get("cov", {})
        res["mdrift"] = [dict(b, trace=mr["file"]) for b in mr.get("bad", [])[:5]]
        res["generated"] = res.get("generated", 0) + mr.get("generated", 0)
        res["distinct"] = res.get("distinct", 0) + mr.get("distinct", 0)
    files = []
    for (args, out, mode), res, info in zip(jobs, results, infos):
        res["mode"] = mode
        res["driver_args"] = args
        res["hang"] = info.get("hang", False)
        files.append(res)
    if files:
        files[0]["sched_models"] = [{k: m[k] for k in ("module", "cfg", "generated", "distinct", "ok", "timed_out", "wall_s")} for m in smodels]
        files[0]["schedules"] = nsched
    with open(cache, "w") as fh:
        json.dump(files, fh)
    return files


def feed(rep, files):
    for res in files:
        def info(b, res=res):
            ln = b["l"]
            ctx = core.read_lines(res["file"], range(max(1, ln - 14), ln + 1))
            cfg = None
            with open(res["file"]) as fh:
                for i, l in enumerate(fh, 1):
                    if i > ln:
                        break
                    if '"ev":"Cfg"' in l:
                        cfg = json.loads(l)
            return {"driver_args": res["driver_args"], "trace": res["file"], "line": ln, "cfg": cfg,
                    "context": [ctx[k] for k in sorted(ctx)], "tracespec": "TraceDp"}
        rep.add_trace_result(res, info)
        rep.traces += res.get("runs", 0)
        if "schedules" in res:
            rep.extra["schedules_replayed"] = res["schedules"]
            for m in res.get("sched_models", []):
                rep.model_runs.append(m)
                rep.states += m.get("distinct", 0)
                rep.transitions += m.get("generated", 0)
        if res.get("mdrift"):
            rep.extra.setdefault("model_drift", []).extend(res["mdrift"][:3])
        mc = rep.extra.setdefault("model_call_coverage", {})
        for k, v in res.get("mcov", {}).items():
            mc[k] = mc.get(k, 0) + v


def run(prop, tier):
    import p_models
    rep = core.Report(prop, tier)
    for job in p_models.jobs(prop, tier):
        p_models.run_job(rep, job)
    files = dp_results(tier)
    feed(rep, files)
    with open(files[0]["file"]) as fh:
        rep.samples = [json.loads(next(fh)) for _ in range(4)]
    rep.assumptions = ["reference slave of DESIGN 5.5 (dp.rs) executes requests even when the channel loses/replaces the reply",
                       "reply classes by form relative to the outstanding request (DESIGN 5.6)", "TLC/SANY/Json module, Codec.tla as wire decoder",
                       "events are collected after every poll (property premise)"]
    return rep.finish({"rule": "seeded random DP runs (1..3/4 peripherals, random options, fault plans, user calls); one trace = one run"})


def replay(prop, path):
    with open(path) as fh:
        info = json.load(fh)
    d = core.workdir("replay_run", clean=True)
    out = os.path.join(d, "trace.ndjson")
    core.run_driver(info["driver_args"], out)
    rep = core.Report(prop, "quick")
    res = core.tlc_trace("TraceDp", "TraceDp.cfg", out)
    res["driver_args"] = info["driver_args"]
    res["mode"] = "replay"
    feed(rep, [res])
    rep.samples = [info.get("cfg")]
    return rep.finish()
