"""Orchestrator core: build the harness, run TLC (model jobs and trace validation), match
violations against known findings, write evidence.  Python 3 stdlib only."""
import concurrent.futures as cf
import hashlib
import json
import os
import re
import shutil
import subprocess
import sys
import time

VERIF = os.path.dirname(os.path.dirname(os.path.abspath(__file__)))
REPO = "/repo"
SPEC = os.path.join(VERIF, "spec")
WORK = os.path.join(VERIF, "work")
HARNESS = os.path.join(VERIF, "harness")
PBV = os.path.join(HARNESS, "target", "debug", "pbv")
EVID = os.path.join(VERIF, "evidence")
TLC_CP = "/opt/veriftools/tla/tla2tools.jar:/opt/veriftools/tla/CommunityModules-deps.jar"
NCPU = os.cpu_count() or 4


class ToolError(Exception):
    pass


def log(*a):
    print(*a, flush=True)


def seed():
    try:
        return int(os.environ.get("VERIF_SEED", "1"))
    except ValueError:
        return 1


# ----------------------------------------------------------------------------- build
def build_harness():
    t0 = time.time()
    env = dict(os.environ, CARGO_NET_OFFLINE="true")
    p = subprocess.run(["cargo", "build", "--offline"], cwd=HARNESS, env=env, stdout=subprocess.PIPE, stderr=subprocess.STDOUT, text=True)
    if p.returncode != 0:
        log(p.stdout[-4000:])
        raise ToolError("harness build failed (does /repo compile?)")
    return time.time() - t0


def source_hash(extra=()):
    h = hashlib.sha256()
    roots = [os.path.join(REPO, "src"), os.path.join(REPO, "gsd-parser", "src"), os.path.join(HARNESS, "src")]
    files = [os.path.join(REPO, "Cargo.toml"), os.path.join(REPO, "gsd-parser", "Cargo.toml"), os.path.join(HARNESS, "Cargo.toml")]
    for r in roots:
        for d, _, fs in sorted(os.walk(r)):
            for f in sorted(fs):
                files.append(os.path.join(d, f))
    for f in list(files) + list(extra):
        h.update(f.encode())
        try:
            with open(f, "rb") as fh:
                h.update(fh.read())
        except OSError:
            pass
    return h.hexdigest()[:16]


def workdir(*parts, clean=False):
    d = os.path.join(WORK, *parts)
    if clean and os.path.isdir(d):
        shutil.rmtree(d)
    os.makedirs(d, exist_ok=True)
    return d


# ----------------------------------------------------------------------------- harness drivers
def run_driver(args, out, timeout=600, hang_secs=5):
    """Run `pbv <args> --out out`.  A hang inside the code under test is turned into a `Hang`
    event appended to the trace (exit status 3 of the child), a crash of the harness itself
    is a tool error."""
    hangfile = out + ".hang"
    if os.path.exists(hangfile):
        os.remove(hangfile)
    cmd = [PBV] + [str(a) for a in args] + ["--out", out, "--hangfile", hangfile, "--hangsecs", str(hang_secs)]
    try:
        p = subprocess.run(cmd, stdout=subprocess.PIPE, stderr=subprocess.PIPE, text=True, timeout=timeout)
    except subprocess.TimeoutExpired:
        raise ToolError("driver timeout: " + " ".join(cmd))
    if p.returncode == 3 and os.path.exists(hangfile):
        # the partial trace is kept; buffered lines may be missing, so the Hang record stands alone
        with open(hangfile) as fh:
            hang = fh.read()
        with open(out, "a") as fh:
            fh.write("\n" if not _ends_nl(out) else "")
            fh.write(hang)
        return {"cmd": cmd, "hang": True, "stderr": p.stderr[-2000:]}
    if p.returncode != 0:
        raise ToolError("driver failed (%d): %s\n%s" % (p.returncode, " ".join(cmd), p.stderr[-3000:]))
    return {"cmd": cmd, "hang": False, "stderr": p.stderr[-2000:]}


def _ends_nl(path):
    try:
        with open(path, "rb") as fh:
            fh.seek(-1, 2)
            return fh.read(1) == b"\n"
    except OSError:
        return True


def run_drivers(jobs, maxpar=None):
    """jobs: list of (args, out).  Runs in parallel, returns list of results in order."""
    maxpar = maxpar or max(1, NCPU - 2)
    with cf.ThreadPoolExecutor(maxpar) as ex:
        futs = [ex.submit(run_driver, a, o) for a, o in jobs]
        return [f.result() for f in futs]


# ----------------------------------------------------------------------------- TLC
_STATES = re.compile(r"^(\d+) states generated, (\d+) distinct states found", re.M)


def _tlc_cmd(spec, cfg, metadir, workers, xmx, extra):
    return ["java", "-XX:+UseParallelGC", "-Xmx" + xmx, "-cp", TLC_CP, "tlc2.TLC", "-workers", str(workers), "-metadir", metadir,
            "-cleanup", "-noGenerateSpecTE", "-config", cfg] + list(extra) + [spec]


def tlc_model(module, cfg, workers=8, timeout=1800, xmx="12g", extra=(), allow_timeout=False):
    """Run a TLC model-checking job on spec/<module>.tla with spec/<cfg>.  Returns a dict with
    generated/distinct state counts, `ok`, and the error text if TLC reported one."""
    spec = os.path.join(SPEC, module + ".tla")
    cfgp = cfg if os.path.isabs(cfg) else os.path.join(SPEC, cfg)
    meta = workdir("tlc", "m_%s_%d_%d" % (os.path.basename(cfg).replace(".cfg", ""), os.getpid(), int(time.time() * 1000) % 100000), clean=True)
    env = dict(os.environ)
    env.pop("JAVA_TOOL_OPTIONS", None)
    env["JAVA_TOOL_OPTIONS"] = "-Xss256m"
    t0 = time.time()
    timed_out = False
    try:
        p = subprocess.run(_tlc_cmd(spec, cfgp, meta, workers, xmx, extra), cwd=meta, env=env, stdout=subprocess.PIPE, stderr=subprocess.STDOUT,
                           text=True, timeout=timeout)
        out = p.stdout
        rc = p.returncode
    except subprocess.TimeoutExpired as e:
        out = (e.stdout or b"").decode() if isinstance(e.stdout, bytes) else (e.stdout or "")
        rc = -1
        timed_out = True
    shutil.rmtree(meta, ignore_errors=True)
    gen = dist = 0
    m = None
    for m in _STATES.finditer(out):
        pass
    if m:
        gen, dist = int(m.group(1)), int(m.group(2))
    else:
        pm = None
        for pm in re.finditer(r"Progress\(\d+\) at [^:]+:\d+:\d+: ([\d,]+) states generated.*?, ([\d,]+) distinct states found", out):
            pass
        if pm:
            gen, dist = int(pm.group(1).replace(",", "")), int(pm.group(2).replace(",", ""))
    ok = rc == 0 and "No error has been found" in out
    err = ""
    if not ok:
        i = out.find("Error:")
        err = out[i:i + 6000] if i >= 0 else out[-3000:]
    res = {"module": module, "cfg": os.path.basename(cfg), "generated": gen, "distinct": dist, "ok": ok, "timed_out": timed_out, "error": err,
           "wall_s": round(time.time() - t0, 1), "output": out}
    if timed_out and not allow_timeout:
        raise ToolError("TLC timeout on %s/%s" % (module, cfg))
    if not ok and not timed_out and "is violated" not in out and "violated" not in out and "Deadlock" not in out:
        raise ToolError("TLC failed on %s/%s:\n%s" % (module, cfg, out[-3000:]))
    return res


_RESULT = re.compile(r'^<<"RESULT", "(.*)">>\s*$', re.M)


def _unescape(s):
    return json.loads('"' + s + '"')


def tlc_trace(tracespec, cfg, trace_file, timeout=1800, xmx="3g"):
    """Validate one ndjson trace against spec/<tracespec>.tla.  Returns the RESULT record printed
    by the trace spec (n, bad[], cov{}, conf{}) plus TLC state counts."""
    spec = os.path.join(SPEC, tracespec + ".tla")
    cfgp = os.path.join(SPEC, cfg)
    meta = workdir("tlc", "t_%s_%d_%s" % (tracespec, os.getpid(), hashlib.md5(trace_file.encode()).hexdigest()[:10]), clean=True)
    env = dict(os.environ, TRACE=trace_file)
    env["JAVA_TOOL_OPTIONS"] = "-Xss1g -Dtlc2.tool.queue.IStateQueue=StateDeque"
    t0 = time.time()
    try:
        p = subprocess.run(_tlc_cmd(spec, cfgp, meta, 1, xmx, ()), cwd=meta, env=env, stdout=subprocess.PIPE, stderr=subprocess.STDOUT, text=True,
                           timeout=timeout)
    except subprocess.TimeoutExpired:
        shutil.rmtree(meta, ignore_errors=True)
        raise ToolError("TLC trace validation timeout: %s %s" % (tracespec, trace_file))
    shutil.rmtree(meta, ignore_errors=True)
    out = p.stdout
    m = None
    for m in _RESULT.finditer(out):
        pass
    if not m or p.returncode != 0 or "No error has been found" not in out:
        raise ToolError("trace validation did not complete: %s %s\n%s" % (tracespec, trace_file, out[-4000:]))
    res = json.loads(_unescape(m.group(1)))
    sm = None
    for sm in _STATES.finditer(out):
        pass
    res["generated"] = int(sm.group(1)) if sm else 0
    res["distinct"] = int(sm.group(2)) if sm else 0
    res["file"] = trace_file
    res["wall_s"] = round(time.time() - t0, 1)
    return res


def tlc_traces(tracespec, cfg, files, maxpar=None):
    maxpar = maxpar or max(1, NCPU - 2)
    with cf.ThreadPoolExecutor(maxpar) as ex:
        futs = [ex.submit(tlc_trace, tracespec, cfg, f) for f in files]
        return [f.result() for f in futs]


def split_trace(path, nparts, carry_events=("Cfg", "Chain"), boundary=None):
    """Split an ndjson file into <= nparts files of roughly equal size.  The last seen event of
    each kind in `carry_events` is repeated at the start of the next part, so that every part is
    self-contained.  Returns list of (file, line_offset) where line_offset maps part lines back."""
    with open(path) as fh:
        lines = fh.readlines()
    n = len(lines)
    if nparts <= 1 or n < 2000:
        return [(path, [i + 1 for i in range(n)])]
    per = (n + nparts - 1) // nparts
    parts = []
    carry = {}
    i = 0
    k = 0
    while i < n:
        j = min(n, i + per)
        if boundary:
            while j < n and not boundary(lines[j]):
                j += 1
        out = "%s.part%d" % (path, k)
        linemap = []
        with open(out, "w") as fh:
            if i > 0:
                for ev in carry_events:
                    if ev in carry:
                        fh.write(lines[carry[ev]])
                        linemap.append(carry[ev] + 1)
            for x in range(i, j):
                fh.write(lines[x])
                linemap.append(x + 1)
        for x in range(i, j):
            for ev in carry_events:
                if '"ev":"%s"' % ev in lines[x]:
                    carry[ev] = x
        parts.append((out, linemap))
        i = j
        k += 1
    return parts


# ----------------------------------------------------------------------------- findings
def load_known():
    p = os.path.join(VERIF, "known_findings.json")
    if not os.path.exists(p):
        return []
    with open(p) as fh:
        return json.load(fh).get("findings", [])


def match_known(prop, clause, sig, known):
    for f in known:
        if f.get("status") != "open" or f.get("property") != prop:
            continue
        s = f.get("signature", {})
        if s.get("clause") != clause:
            continue
        want = s.get("sig", {})
        if all(_sig_match(sig.get(k), v) for k, v in want.items()):
            return f
    return None


def _sig_match(have, want):
    if isinstance(want, dict) and "contains" in want:
        return isinstance(have, str) and want["contains"] in have
    if isinstance(want, dict) and "in" in want:
        return have in want["in"]
    return have == want


class Report:
    """Collects what one check did; prints VIOLATION / KNOWN-FINDING lines; writes evidence."""

    def __init__(self, prop, tier, level="model_checking"):
        self.prop, self.tier, self.level = prop, tier, level
        self.t0 = time.time()
        self.known = load_known()
        self.violations = []       # dicts: clause, sig, replay
        self.known_hits = {}       # finding id -> count
        self.model_runs = []
        self.trace_results = []
        self.states = 0
        self.transitions = 0
        self.traces = 0
        self.samples = []
        self.extra = {}
        self.assumptions = []
        self.clauses = {}
        self.conf = {"events": 0, "explained": 0}
        self.drift = []
        self.replay_n = 0
        # replay files of earlier runs of this check are stale
        import glob
        for f in glob.glob(os.path.join(WORK, "replay", "%s_%s_*.json" % (prop, tier))):
            try:
                os.remove(f)
            except OSError:
                pass

    # -- model layer
    def add_model(self, r, expect_ok=True):
        self.model_runs.append({k: r[k] for k in ("module", "cfg", "generated", "distinct", "ok", "timed_out", "wall_s")})
        self.states += r["distinct"]
        self.transitions += r["generated"]
        return r

    # -- trace layer
    def add_trace_result(self, res, replay_info):
        """res: RESULT record of a trace validation.  replay_info(l) -> dict describing how to
        replay the violation at (original) line l."""
        self.trace_results.append({k: res.get(k) for k in ("file", "n", "generated", "wall_s")})
        self.states += res.get("distinct", 0)
        self.transitions += res.get("generated", 0)
        for c, v in res.get("cov", {}).items():
            self.clauses[c] = self.clauses.get(c, 0) + v
        cfm = res.get("conf") or {}
        self.conf["events"] += cfm.get("n", 0)
        self.conf["explained"] += cfm.get("ok", 0)
        for b in res.get("bad", []):
            self.violation(b["clause"], b.get("sig", {}), replay_info(b))

    # how often the premise of each rejecting clause of this property was met: the trace specs count activities
    # (requests, calls, visits ...) under their own names; this maps every clause to the activity it is evaluated on
    EVAL = {
        "C01.overlap": ["C01.*"], "C01.permission": ["C01.*"], "C01.tid": ["C01.Holder", "C01.PassSupervision", "C01.Claim", "C01.None"], "C01.tsdr": ["C01.Reply"],
        "C03.saps": ["C08.req"], "C03.wd": ["C03.prm"], "C04.event": ["C14.ev.DataExchanged"], "C14.configured": ["C04.out"], "C14.flags": ["C14.life"],
        "C05.panic": ["#traces"], "C05.hang": ["#traces"], "C06.alive": ["C06.end"], "C06.single": ["C06.order"], "C11.immediate": ["C11.max3"],
        "C12.one": ["C12.range"], "C12.cadence": ["C12.range"], "C12.reply.when": ["C12.reply.state"], "C15.done": ["C15.holder"], "C15.form": ["C15.reply"],
        "C09.total": ["C09.exact"], "C16.deliver": ["C16.call.one", "C16.call.all"], "C16.keep": ["C16.call.one", "C16.call.all"], "C16.last": ["C16.call.all", "C16.dirty"],
        "C16.total": ["C16.call.one", "C16.call.all"], "C17.header": ["C17.call"], "C17.fit": ["C17.call"], "C17.blocks": ["C17.call"], "C17.kinds": ["C17.nonempty"],
        "C17.total": ["C17.call", "C17.scan"], "C18.events": ["C18.converge"], "C18.ident": ["C18.found"], "C18.spurious": ["C18.found"], "C18.total": ["#traces"],
        "C19.faithful": ["C19.doc"], "C19.total": ["C19.doc", "C19.fuzz.ok", "C19.fuzz.err"], "C20.build": ["C20.new"], "C20.field": ["C20.set.ok"], "C20.frame": ["C20.set.ok"],
        "C20.range": ["C20.set.ok", "C20.set.err"], "C20.error": ["C20.set.err"], "C20.total": ["C20.new", "C20.set.ok", "C20.set.err"],
    }

    def _clause_evaluations(self):
        out = {}
        for c, v in self.clauses.items():
            if not c.startswith(self.prop + "."):
                continue
            if v > 0 or c not in self.EVAL:
                out[c] = v
                continue
            tot = 0
            for k in self.EVAL[c]:
                if k == "#traces":
                    tot += self.traces
                elif k.endswith("*"):
                    tot += sum(x for n, x in self.clauses.items() if n.startswith(k[:-1]))
                else:
                    tot += self.clauses.get(k, 0)
            out[c] = tot
        return out

    def violation(self, clause, sig, info):
        prop = clause.split(".")[0] if re.match(r"C\d\d", clause) else self.prop
        if prop != self.prop and not info.get("force"):
            # a clause of another property tripped in a shared trace: it is that property's check
            # that reports it; remember it for the evidence only
            self.extra.setdefault("other_property_rejections", {}).setdefault(clause, 0)
            self.extra["other_property_rejections"][clause] += 1
            return
        f = match_known(self.prop, clause, sig, self.known)
        if f:
            self.known_hits.setdefault(f["id"], {"count": 0, "finding": f})["count"] += 1
            return
        self.replay_n += 1
        d = workdir("replay")
        path = os.path.join(d, "%s_%s_%d.json" % (self.prop, self.tier, self.replay_n))
        info = dict(info, property=self.prop, clause=clause, sig=sig)
        with open(path, "w") as fh:
            json.dump(info, fh, indent=1)
        self.violations.append({"clause": clause, "sig": sig, "replay": path})

    def finish(self, coverage_extra=None, exhaustive=False):
        wall = time.time() - self.t0
        for fid, h in sorted(self.known_hits.items()):
            f = h["finding"]
            log("KNOWN-FINDING: property=%s %s: %s (%d occurrence(s) this run)" % (self.prop, fid, f.get("text", ""), h["count"]))
        shown = 0
        for v in self.violations:
            if shown < 25:
                log("VIOLATION property=%s replay=%s clause=%s sig=%s" % (self.prop, v["replay"], v["clause"], json.dumps(v["sig"], sort_keys=True)))
            shown += 1
        if self.conf["events"] and self.conf["explained"] < self.conf["events"]:
            log("MODEL-DRIFT property=%s explained %d of %d events" % (self.prop, self.conf["explained"], self.conf["events"]))
        cov = {
            "clause_evaluations": self._clause_evaluations(),
            "states": max(1, self.states),
            "transitions": max(1, self.transitions),
            "traces_validated_against_impl": self.traces,
            "samples": self.samples[:6] if self.samples else ["(no sample recorded)"],
            "model_runs": self.model_runs,
            "trace_validation_runs": len(self.trace_results),
            "trace_events": sum(r.get("n") or 0 for r in self.trace_results),
            "clauses": dict(sorted(self.clauses.items())),
            "model_conformance": self.conf,
            "known_findings_matched": {k: v["count"] for k, v in self.known_hits.items()},
            "exhaustive": exhaustive,
        }
        cov.update(self.extra)
        if coverage_extra:
            cov.update(coverage_extra)
        ev = {
            "property_id": self.prop, "tier": self.tier, "seed": seed(), "level": self.level,
            "coverage": cov, "assumptions": self.assumptions, "wall_s": round(wall, 1),
            "violations": len(self.violations),
        }
        os.makedirs(EVID, exist_ok=True)
        with open(os.path.join(EVID, self.prop + ".json"), "w") as fh:
            json.dump(ev, fh, indent=1, sort_keys=True)
        log("%s tier=%s: %d violation(s), %d known finding(s), states=%d transitions=%d traces=%d wall=%.0fs" % (
            self.prop, self.tier, len(self.violations), len(self.known_hits), self.states, self.transitions, self.traces, wall))
        return 1 if self.violations else 0


def read_lines(path, lines):
    """Fetch given 1-based lines of a file as parsed JSON."""
    want = set(lines)
    out = {}
    with open(path) as fh:
        for i, l in enumerate(fh, 1):
            if i in want:
                try:
                    out[i] = json.loads(l)
                except ValueError:
                    out[i] = l
    return out
