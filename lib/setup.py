"""./check setup: build the harness offline and parse every specification with SANY."""
import glob
import os
import subprocess

import core


def run():
    t = core.build_harness()
    core.log("harness built in %.0fs" % t)
    bad = 0
    for f in sorted(glob.glob(os.path.join(core.SPEC, "*.tla"))):
        p = subprocess.run(["java", "-cp", core.TLC_CP, "tla2sany.SANY", f], cwd=core.SPEC, stdout=subprocess.PIPE, stderr=subprocess.STDOUT, text=True)
        if p.returncode != 0 or "Semantic errors" in p.stdout or "*** Errors" in p.stdout or "Parse Error" in p.stdout:
            core.log("SANY failed on", f)
            core.log(p.stdout[-2000:])
            bad += 1
    core.log("SANY parsed %d modules, %d failures" % (len(glob.glob(os.path.join(core.SPEC, "*.tla"))), bad))
    return 2 if bad else 0
