------------------------------ MODULE DpRules ------------------------------
(* Layer P rule monitor for the DP master (C03 C04 C07 C08 C14, C05 totality) over the event    *)
(* log of `pbv dp`: wire requests of the real master (decoded here by the normative Codec),     *)
(* replies actually delivered by the environment, user calls, and the public DP view after      *)
(* every poll (events, is_live, is_running, pi_i).  Replies are classified by their FORM         *)
(* relative to the outstanding request (DESIGN 5.6).                                            *)
EXTENDS Codec, TLC

Max2(a, b) == IF a > b THEN a ELSE b

R(clause, sig, rs, hits) == [clause |-> clause, all |-> IF clause = "ok" THEN <<>> ELSE <<clause>>, sig |-> sig, rs |-> rs, hits |-> hits]
NoSig == [x |-> 0]
FirstBad(cs) == LET bad == SelectSeq(cs, LAMBDA c : ~c[2]) IN IF bad = <<>> THEN "ok" ELSE bad[1][1]
(* every failing clause of the event is reported: each clause is a fact about the trace of its own *)
RS(cs, sig, rs, hits) == LET bad == SelectSeq(cs, LAMBDA c : ~c[2]) IN
  [clause |-> IF bad = <<>> THEN "ok" ELSE bad[1][1], all |-> [i \in 1..Len(bad) |-> bad[i][1]], sig |-> sig, rs |-> rs, hits |-> hits]

NoReq == [svc |-> "none", fcv |-> 0, fcb |-> 0]
NoOut == [p |-> 0, svc |-> "none"]
NoDelivery == [k |-> "none", pdu |-> <<>>]

PerInit(pc) ==
  [phase |-> "Off", last |-> NoReq, answered |-> "none", tries |-> 0, first |-> TRUE,
   life |-> "off",                 \* off | online | configured   (C14.life)
   piq |-> [i \in 1..pc.n_out |-> 0], pii |-> [i \in 1..pc.n_in |-> 0],
   delivered |-> NoDelivery, dxSeen |-> TRUE,
   poweredOffAt |-> -1]

RuleInit(cfg) ==
  [cfg |-> cfg, NP |-> Len(cfg.per),
   per |-> [p \in 1..Len(cfg.per) |-> PerInit(cfg.per[p])],
   out |-> NoOut, cycleSeq |-> <<>>, repeats |-> 0,
   faultsEnd |-> FALSE, cyclesAfter |-> 0, cycles |-> 0]

PIdx(rs, addr) == LET S == {p \in 1..rs.NP : rs.cfg.per[p].addr = addr} IN IF S = {} THEN 0 ELSE CHOOSE p \in S : TRUE
Live(pr) == pr.life # "off"

(* ------------------------------------------------------------------ normative PDUs (C03) *)
SetPrmPdu(cfg, pc) ==
  LET wd == cfg.wd # <<>>
      b0 == 128 + (IF pc.sync THEN 32 ELSE 0) + (IF pc.freeze THEN 16 ELSE 0) + (IF wd THEN 8 ELSE 0)
  IN <<b0, IF wd THEN cfg.wd[1] ELSE 0, IF wd THEN cfg.wd[2] ELSE 0, cfg.min_tsdr, pc.ident \div 256, pc.ident % 256, pc.groups>> \o pc.prm
(* watchdog factors of the builder: present iff requested, 1..255 each, f1*f2*10ms >= request floored to 10 ms *)
WdOk(cfg) ==
  IF cfg.wd_ms = -1 THEN cfg.wd = <<>>
  ELSE /\ cfg.wd # <<>> /\ cfg.wd[1] \in 1..255 /\ cfg.wd[2] \in 1..255
       /\ cfg.wd[1] * cfg.wd[2] >= cfg.wd_ms \div 10

SvcOf(t) == CASE t.dsap = 60 -> "diag" [] t.dsap = 61 -> "prm" [] t.dsap = 62 -> "cfg"
              [] t.dsap = -1 /\ t.ssap = -1 -> "dx" [] OTHER -> "other"

(* ------------------------------------------------------------------ master transmissions *)
OnMasterTx(rs, e) ==
  LET d == Decode(e.b) IN
  \* any other transmission of the master (token, GAP poll, global control) ends the message cycle
  IF d.r # "ok" \/ d.t.k # "data" THEN R("ok", NoSig, [rs EXCEPT !.out = NoOut], <<>>)
  ELSE LET t == WithPdu(d.t, e.b)
           p == PIdx(rs, t.da)
       IN IF t.fc.k # "req" \/ p = 0 \/ t.fc.rt \notin {12, 13} THEN R("ok", NoSig, [rs EXCEPT !.out = NoOut], <<>>)
          ELSE
  LET cfg == rs.cfg  pc == cfg.per[p]  pr == rs.per[p]
      svc == SvcOf(t)  fcv == t.fc.fcv  fcb == t.fc.fcb
      same == pr.last.svc # "none" /\ pr.last.fcv = fcv /\ pr.last.fcb = fcb
      retrans == ~pr.first /\ same /\ pr.last.svc = svc /\ pr.answered = "none"
      tries == IF retrans THEN pr.tries + 1 ELSE 1
      lastP == IF rs.cycleSeq = <<>> THEN 0 ELSE rs.cycleSeq[Len(rs.cycleSeq)]
      repeats == IF lastP = p THEN rs.repeats + 1 ELSE 1
      cs == <<
        <<"C08.first",  pr.first => (fcv = 0 /\ fcb = 1)>>,
        <<"C08.probe",  ~Live(pr) => svc = "diag">>,
        <<"C08.same",   (~pr.first /\ same) => (pr.last.svc = svc /\ pr.answered # "pos")>>,
        <<"C08.toggle", (~pr.first /\ pr.answered = "pos") => (fcv = 1 /\ fcb # pr.last.fcb)>>,
        <<"C08.limit",  Live(pr) => tries <= 1 + cfg.retry>>,
        <<"C03.saps",   svc # "other" /\ (svc # "dx" => t.ssap = 62) /\ (svc = "diag" => t.pdu = <<>>)>>,
        <<"C03.order",  svc = "dx" => pr.phase = "Ready">>,
        <<"C03.prm",    svc = "prm" => t.pdu = SetPrmPdu(cfg, pc)>>,
        <<"C03.wd",     svc = "prm" => WdOk(cfg)>>,
        <<"C03.cfg",    svc = "cfg" => t.pdu = pc.cfg>>,
        <<"C04.out",    svc = "dx" => t.pdu = pr.piq>>,
        <<"C04.event",  pr.dxSeen>>,                              \* an earlier good reply must have been reported
        <<"C14.configured", svc = "dx" => pr.life = "configured">>,
        <<"C14.pass",   p >= lastP /\ repeats <= 1 + cfg.retry>> >>
      hits == <<"C08.req">> \o (IF pr.first THEN <<"C08.first">> ELSE <<>>)
              \o (IF ~Live(pr) THEN <<"C08.probe">> ELSE <<>>)
              \o (IF ~pr.first /\ same THEN <<"C08.same">> ELSE <<>>)
              \o (IF ~pr.first /\ pr.answered = "pos" THEN <<"C08.toggle">> ELSE <<>>)
              \o (IF retrans THEN <<"C08.limit">> ELSE <<>>)
              \o (IF svc = "dx" THEN <<"C03.order", "C04.out">> ELSE <<>>)
              \o (IF svc = "prm" THEN <<"C03.prm">> ELSE <<>>) \o (IF svc = "cfg" THEN <<"C03.cfg">> ELSE <<>>)
              \o <<"C14.pass">>
      rs1 == [rs EXCEPT !.per[p].last = [svc |-> svc, fcv |-> fcv, fcb |-> fcb],
                        !.per[p].answered = "none", !.per[p].tries = tries, !.per[p].first = FALSE,
                        !.per[p].delivered = NoDelivery,
                        !.out = [p |-> p, svc |-> svc],
                        !.cycleSeq = Append(@, p), !.repeats = repeats]
  IN RS(cs, [svc |-> svc, p |-> p, fcv |-> fcv, fcb |-> fcb, lastsvc |-> pr.last.svc, answered |-> pr.answered], rs1, hits)

(* ------------------------------------------------------------------ replies delivered by the environment *)
DiagFlags(pdu) == [notready |-> (pdu[1] \div 2) % 2 = 1, cfgfault |-> (pdu[1] \div 4) % 2 = 1, prmfault |-> (pdu[1] \div 64) % 2 = 1,
                   prmreq |-> pdu[2] % 2 = 1]

OnEnvTx(rs, e) ==
  IF rs.out.p = 0 THEN R("ok", NoSig, rs, <<>>)
  ELSE
  LET p == rs.out.p  svc == rs.out.svc  cfg == rs.cfg  pc == cfg.per[p]  pr == rs.per[p]
      d == Decode(e.b)
      t == IF d.r = "ok" THEN WithPdu(d.t, e.b) ELSE ShortConf
      isSc == d.r = "ok" /\ d.t.k = "sc"
      isResp == d.r = "ok" /\ d.t.k = "data" /\ t.fc.k = "resp" /\ t.da = cfg.master /\ t.sa = pc.addr
      reaches == isSc \/ isResp                       \* everything else must be filtered by the FDL
      diagOk == isResp /\ t.dsap = 62 /\ t.ssap = 60 /\ Len(t.pdu) >= 6
      dxOk == isResp /\ t.dsap = -1 /\ t.ssap = -1 /\ t.fc.status \in {0, 8, 10} /\ Len(t.pdu) = pc.n_in
      dxRs == isResp /\ t.fc.status = 3
      pos == CASE svc = "diag" -> diagOk
               [] svc \in {"prm", "cfg"} -> isSc
               [] svc = "dx" -> dxOk \/ (isSc /\ pc.n_in = 0)
               [] OTHER -> FALSE
      fl == IF diagOk THEN DiagFlags(t.pdu) ELSE [notready |-> FALSE, cfgfault |-> FALSE, prmfault |-> FALSE, prmreq |-> FALSE]
      clean == ~fl.notready /\ ~fl.cfgfault /\ ~fl.prmfault /\ ~fl.prmreq
      phase == CASE svc = "diag" /\ pos /\ fl.prmreq -> "DiagOk"
                 [] svc = "diag" /\ pos /\ pr.phase = "Off" -> "DiagOk"
                 [] svc = "diag" /\ pos /\ pr.phase = "CfgAck" /\ clean -> "Ready"
                 [] svc = "prm" /\ pos /\ pr.phase = "DiagOk" -> "PrmAck"
                 [] svc = "cfg" /\ pos /\ pr.phase = "PrmAck" -> "CfgAck"
                 [] svc = "dx" /\ reaches /\ dxRs /\ pr.phase = "Ready" -> "CfgAck"
                 [] OTHER -> pr.phase
      deliv == IF svc = "dx" /\ pos THEN [k |-> IF isSc THEN "sc0" ELSE "good_dx", pdu |-> IF isSc THEN <<>> ELSE t.pdu]
               ELSE IF reaches THEN [k |-> "other", pdu |-> <<>>] ELSE pr.delivered
      rs1 == [rs EXCEPT !.per[p].answered = IF pos THEN "pos" ELSE IF reaches THEN "neg" ELSE @,
                        !.per[p].phase = phase, !.per[p].delivered = deliv,
                        !.per[p].dxSeen = IF svc = "dx" /\ pos THEN FALSE ELSE @]
  IN R("ok", NoSig, rs1, <<IF pos THEN "reply.pos" ELSE IF reaches THEN "reply.neg" ELSE "reply.filtered">>)

(* ------------------------------------------------------------------ public DP view after a poll *)
OnDp(rs, e) ==
  LET cfg == rs.cfg
      hasEv == e.pev # <<>>
      ep == IF hasEv THEN e.pev[1] ELSE 0
      ek == IF hasEv THEN e.pev[2] ELSE "none"
      pr0 == IF ep \in 1..rs.NP THEN rs.per[ep] ELSE PerInit([n_in |-> 0, n_out |-> 0])
      (* C14.life: Online -> (Configured -> (DataExchanged | Diagnostics)* )* -> (Offline | ParameterError | ConfigError) *)
      lifeOk == CASE ek = "none" -> TRUE
                  [] ek = "Online" -> pr0.life = "off"
                  [] ek = "Configured" -> pr0.life \in {"online", "configured"}
                  [] ek = "DataExchanged" -> pr0.life = "configured"
                  [] ek = "Diagnostics" -> pr0.life = "configured"
                  [] ek = "Offline" -> pr0.life # "off"
                  [] ek \in {"ParameterError", "ConfigError"} -> pr0.life \in {"online", "configured"}
                  [] OTHER -> FALSE
      life1 == CASE ek = "Online" -> "online" [] ek = "Configured" -> "configured"
                 [] ek \in {"Offline", "ParameterError", "ConfigError"} -> "off" [] OTHER -> pr0.life
      per1 == IF ep \in 1..rs.NP
              THEN [rs.per EXCEPT ![ep].life = life1,
                                  ![ep].phase = IF ek \in {"Offline", "ParameterError", "ConfigError"} THEN "Off" ELSE @,
                                  ![ep].first = IF ek = "Offline" THEN TRUE ELSE @,
                                  ![ep].dxSeen = IF ek = "DataExchanged" THEN TRUE ELSE @]
              ELSE rs.per
      flagsOk == /\ \A p \in 1..rs.NP : /\ e.live[p] = (per1[p].life # "off")
                                        /\ e.running[p] => per1[p].life = "configured"
                 \* a peripheral that has just exchanged data is running
                 /\ (ek = "DataExchanged" /\ ep \in 1..rs.NP) => e.running[ep]
      (* C04 *)
      inOk == \A p \in 1..rs.NP : e.pii[p] # rs.per[p].pii => (rs.per[p].delivered.k = "good_dx" /\ rs.per[p].delivered.pdu = e.pii[p])
      evOk == ek = "DataExchanged" => (ep \in 1..rs.NP /\ pr0.delivered.k \in {"good_dx", "sc0"}
                                       /\ (pr0.delivered.k = "good_dx" => e.pii[ep] = pr0.delivered.pdu))
      (* C07 *)
      cyclesAfter == IF rs.faultsEnd /\ e.cc THEN rs.cyclesAfter + 1 ELSE rs.cyclesAfter
      allRunning == \A p \in 1..rs.NP : e.running[p]
      recoverOk == (rs.faultsEnd /\ cyclesAfter > cfg.bdp) => allRunning
      (* C08: a peripheral is declared offline after an unanswered request, never right after a request whose reply   *)
      (* was accepted (the request that follows an accepted reply toggles the bit, it does not start over)            *)
      offOk == ek = "Offline" => (ep \in 1..rs.NP /\ pr0.answered # "pos")
      cs == << <<"C14.life", lifeOk>>, <<"C14.flags", flagsOk>>, <<"C04.in", inOk>>, <<"C04.event", evOk>>, <<"C08.offline", offOk>>, <<"C07.running", recoverOk>> >>
      per2 == [p \in 1..rs.NP |-> [per1[p] EXCEPT !.pii = e.pii[p]]]
      rs1 == [rs EXCEPT !.per = per2, !.cyclesAfter = cyclesAfter, !.cycles = IF e.cc THEN @ + 1 ELSE @,
                        !.cycleSeq = IF e.cc THEN <<>> ELSE @, !.repeats = IF e.cc THEN 0 ELSE @,
                        !.out = @]
      hits == (IF hasEv THEN <<"C14.life", "C14.ev." \o ek>> ELSE <<>>) \o (IF ek = "Offline" THEN <<"C08.offline">> ELSE <<>>) \o (IF e.cc THEN <<"C14.cycle">> ELSE <<>>)
              \o (IF \E p \in 1..rs.NP : e.pii[p] # rs.per[p].pii THEN <<"C04.in">> ELSE <<>>)
              \o (IF rs.faultsEnd /\ e.cc /\ allRunning THEN <<"C07.running">> ELSE <<>>)
  IN RS(cs, [ev |-> ek, p |-> ep], rs1, hits)

OnEnd(rs, e) ==
  \* the run ends after Bdp + margin cycles: everything healthy must be running, no reply may wait for its event
  R("ok", NoSig, rs, <<"C07.end">>)

RuleStep(rs, e) ==
  CASE e.ev = "Tx"        -> IF "env" \in DOMAIN e THEN OnEnvTx(rs, e) ELSE OnMasterTx(rs, e)
    [] e.ev = "Dp"        -> OnDp(rs, e)
    [] e.ev = "UserWrite" -> R("ok", NoSig, [rs EXCEPT !.per[e.p].piq = e.q], <<"user.write">>)
    [] e.ev = "UserDiag"  -> R("ok", NoSig, rs, <<"user.diag">>)
    [] e.ev = "FaultsEnd" -> R("ok", NoSig, [rs EXCEPT !.faultsEnd = TRUE, !.cyclesAfter = 0], <<>>)
    [] e.ev = "Panic"     -> R("C05.panic", [loc |-> e.loc], rs, <<>>)
    [] e.ev = "Hang"      -> R("C05.hang", NoSig, rs, <<>>)
    [] e.ev = "End"       -> OnEnd(rs, e)
    [] OTHER              -> R("ok", NoSig, rs, <<>>)

AllClauses == {"C08.req", "C08.first", "C08.probe", "C08.same", "C08.toggle", "C08.limit", "C08.offline",
               "C03.saps", "C03.order", "C03.prm", "C03.wd", "C03.cfg", "C04.out", "C04.in", "C04.event",
               "C14.configured", "C14.pass", "C14.life", "C14.flags", "C14.cycle",
               "C14.ev.Online", "C14.ev.Configured", "C14.ev.DataExchanged", "C14.ev.Diagnostics", "C14.ev.Offline",
               "C14.ev.ParameterError", "C14.ev.ConfigError",
               "C07.running", "C07.end", "reply.pos", "reply.neg", "reply.filtered", "user.write", "user.diag",
               "C05.panic", "C05.hang"}
=============================================================================
