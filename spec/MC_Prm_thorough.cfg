SPECIFICATION Spec
CONSTANTS ByteVals <- AllBytes
  IntVals <- IntValsDef
INVARIANT FrameLemma
CHECK_DEADLOCK FALSE
