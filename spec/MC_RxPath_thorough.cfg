SPECIFICATION Spec
CONSTANTS MaxTel = 3 MaxChunk = 6
INVARIANT OrderOk
INVARIANT LastOk
INVARIANT KeepOk
INVARIANT DrainOk
CHECK_DEADLOCK FALSE
