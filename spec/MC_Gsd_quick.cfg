SPECIFICATION Spec
CONSTANTS MaxLen = 4
INVARIANT Compact
INVARIANT MaxModDefault
INVARIANT Legacy
INVARIANT Resolution
CHECK_DEADLOCK FALSE
