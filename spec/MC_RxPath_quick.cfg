SPECIFICATION Spec
CONSTANTS MaxTel = 2 MaxChunk = 4
INVARIANT OrderOk
INVARIANT LastOk
INVARIANT KeepOk
INVARIANT DrainOk
CHECK_DEADLOCK FALSE
