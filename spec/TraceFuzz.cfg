SPECIFICATION Spec
INVARIANT Done
POSTCONDITION Complete
CHECK_DEADLOCK FALSE
