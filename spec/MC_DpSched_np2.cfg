SPECIFICATION SSpec
CONSTANTS FixF6 = TRUE FixF15 = TRUE Retry = 2 NP = 2 FaultBudget = 2 UserBudget = 0 Nin0 = {2} AllowGc = FALSE
INVARIANT EmitState
VIEW SView
CHECK_DEADLOCK FALSE
