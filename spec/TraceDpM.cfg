SPECIFICATION Spec
CONSTANTS FixF6 = TRUE FixF15 = TRUE
INVARIANT Done
POSTCONDITION Complete
CHECK_DEADLOCK FALSE
