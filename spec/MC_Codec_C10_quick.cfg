SPECIFICATION Spec
CONSTANTS
  Alphabet = {16, 104, 162, 220, 22, 229, 0, 3, 5, 73, 127, 255}
  MaxLen = 6
  Addrs = {2, 127}
  Saps <- QSaps
  PduLens = {0, 1, 8, 9}
  SubstVals = {0, 16, 104, 162, 220, 22, 229, 255, 1, 128}
  SubstMaxLen = 16
INVARIANT DecoderClauses
INVARIANT NoMisAccept
PROPERTY PrefixConsistent
CHECK_DEADLOCK FALSE
