SPECIFICATION Spec
CONSTANTS FixF2 = TRUE FixF3 = TRUE FixF14 = TRUE
  HsaSet = {1, 2, 3, 4, 5, 6, 7, 8, 12, 16, 126}
INVARIANT RangeOk
INVARIANT SweepOk
CHECK_DEADLOCK FALSE
