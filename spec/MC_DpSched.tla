----------------------------- MODULE MC_DpSched -----------------------------
(* Schedule extraction from MC_Dp (spec -> impl direction for the DP master): the same actions with a  *)
(* history of the environment's decisions, hidden from the state by VIEW; one shortest schedule per    *)
(* reachable model state is printed and replayed on the real DpMaster against the reference slave by   *)
(* `pbv dp --sched` (the rules of layer P judge the replayed runs like any other).                     *)
EXTENDS MC_Dp, Json
VARIABLE hist
svars == <<m, out, sl, faults, users, bad, mon, hist>>

B(x) == IF x THEN "1" ELSE "0"
Code(r) == IF r.k = "sc" THEN "sc"
           ELSE IF r.diagok THEN "diag." \o B(r.pf) \o B(r.cf) \o B(r.pr) \o B(r.nr)
           ELSE IF ~r.dxsaps THEN "odd"
           ELSE "data." \o r.status \o "." \o B(r.lenok)
Item(k, p, r) == [k |-> k, p |-> p, r |-> r]
Rec(k, p) == hist' = Append(hist, Item(k, p, "-"))

SInit == Init /\ hist = <<>>
SNext ==
  \/ Transmit /\ hist' = Append(hist, Item("tx", 0, "-"))
  \/ ResNobody /\ Rec("nobody", out.p)
  \/ ResLoseReq /\ Rec("losereq", out.p)
  \/ ResDeliver /\ Rec("deliver", out.p)
  \/ ResLoseReply /\ Rec("losereply", out.p)
  \/ \E r \in Substitutes : ResSubst(r) /\ hist' = Append(hist, Item("subst", out.p, Code(r)))
  \/ \E i \in Per : \/ PowerCycle(i) /\ Rec("powercycle", i)
                    \/ PowerOff(i) /\ Rec("poweroff", i)
                    \/ PowerOn(i) /\ Rec("poweron", i)
                    \/ SlaveDiag(i) /\ Rec("slavediag", i)
                    \/ UserDiag(i) /\ Rec("userdiag", i)
SSpec == SInit /\ [][SNext]_svars
SView == <<m, out, sl, faults, users, bad, mon>>
(* a schedule is worth replaying when it ends with nothing outstanding (the run can be continued fault-free) *)
EmitState == (out = NoTx /\ hist # <<>>) =>
               PrintT(<<"SCHED", ToJson([h |-> hist, key |-> ToString(SView), np |-> NP, retry |-> Retry, nin0 |-> [i \in Per |-> i \in Nin0]])>>)
=============================================================================
