-------------------------------- MODULE Dp --------------------------------
(* Layer M: the DP master (src/dp/master.rs) and its per-peripheral state machine              *)
(* (src/dp/peripheral.rs) as operators on explicit state records, shaped like the code:         *)
(*   PTx  = Peripheral::transmit_telegram      PRx = Peripheral::receive_reply                  *)
(*   MTx  = DpMaster::transmit_telegram        MRx = DpMaster::receive_reply                    *)
(* handle_timeout is a no-op in the code (time-outs are noticed by the retry counter in PTx).   *)
(* Telegram contents are abstracted to what the state machine looks at; the byte contents of    *)
(* Set_Prm / Chk_Cfg / Data_Exchange are the business of DpRules (layer P).                     *)
(* Used by MC_Dp (exploration with a slave model and faults, safety + liveness) and by          *)
(* TraceDpM (every recorded call of the real DpMaster must equal the operator's result).        *)
EXTENDS Integers, Sequences, FiniteSets

CONSTANTS FixF6, FixF15  \* TRUE: repaired behaviour (current tree); FALSE: behaviour of the pinned snapshot (findings F6, F15)

(* ---- per-peripheral state: [st, rc, fcb, dn, dif]; static configuration: [prm, cfg, nin0,  *)
(* retry (= fdl.parameters().max_retry_limit)]                                                  *)
PStates == {"Offline", "WaitForParam", "WaitForConfig", "ValidateConfig", "PreDataExchange", "DataExchange"}
FreshP == [st |-> "Offline", rc |-> 0, fcb |-> "First", dn |-> FALSE, dif |-> FALSE]

Cycle(b) == IF b = "Low" THEN "High" ELSE "Low"          \* First -> Low, High -> Low, Low -> High
FcbBit(b) == b \in {"First", "High"}
Fcv(b) == b \in {"High", "Low"}

NoEv == "none"

(* Peripheral::transmit_telegram: [s, send, ev]; send in {"none","diag","prm","cfg","dx"}       *)
PTx(c, s) ==
  LET ok(svc, s1) == [s |-> [s1 EXCEPT !.rc = @ + 1], send |-> svc, ev |-> NoEv]
      err(s1, e)  == [s |-> [s1 EXCEPT !.rc = 0], send |-> "none", ev |-> e]
  IN IF s.rc > c.retry THEN err([s EXCEPT !.st = "Offline", !.fcb = IF FixF6 THEN "First" ELSE @], "Offline")
     ELSE CASE s.st = "Offline"        -> IF s.rc = 0 THEN ok("diag", s) ELSE err(s, NoEv)
            [] s.st = "WaitForParam"   -> IF c.prm THEN ok("prm", s) ELSE err(s, NoEv)
            [] s.st = "WaitForConfig"  -> IF c.cfg THEN ok("cfg", s) ELSE err(s, NoEv)
            [] s.st = "ValidateConfig" -> ok("diag", s)
            [] OTHER -> LET s1 == IF s.rc = 0 THEN [s EXCEPT !.dif = s.dn] ELSE s
                        IN ok(IF s1.dif THEN "diag" ELSE "dx", s1)

(* Abstract reply: [k |-> "sc"] or                                                              *)
(*   [k |-> "data", diagok, pf, cf, pr, nr, status, dxsaps, lenok]                              *)
(*   diagok: SAPs 62/60 and at least 6 bytes; pf/cf/pr/nr: Prm_Fault, Cfg_Fault, Prm_Req,       *)
(*   Station_Not_Ready; status in {"ok","dl","dh","rs","other"}; dxsaps: no SAPs; lenok: pdu    *)
(*   length equals the input image                                                              *)
Sc == [k |-> "sc", diagok |-> FALSE, pf |-> FALSE, cf |-> FALSE, pr |-> FALSE, nr |-> FALSE, status |-> "ok", dxsaps |-> FALSE, lenok |-> FALSE]
DiagR(pf, cf, pr, nr) == [k |-> "data", diagok |-> TRUE, pf |-> pf, cf |-> cf, pr |-> pr, nr |-> nr, status |-> "dl", dxsaps |-> FALSE, lenok |-> FALSE]
DataR(status, lenok) == [k |-> "data", diagok |-> FALSE, pf |-> FALSE, cf |-> FALSE, pr |-> FALSE, nr |-> FALSE, status |-> status, dxsaps |-> TRUE, lenok |-> lenok]
OddR == [k |-> "data", diagok |-> FALSE, pf |-> FALSE, cf |-> FALSE, pr |-> FALSE, nr |-> FALSE, status |-> "ok", dxsaps |-> FALSE, lenok |-> TRUE]

(* Peripheral::receive_reply: [s, ev] *)
PRx(c, s, r) ==
  LET diag == r.k = "data" /\ r.diagok       \* handle_diagnostics_response succeeds (and cycles the FCB)
  IN CASE s.st = "Offline" ->
            IF diag THEN [s |-> [s EXCEPT !.fcb = Cycle(@), !.rc = 0, !.st = "WaitForParam"], ev |-> "Online"]
            ELSE [s |-> s, ev |-> NoEv]
       [] s.st = "WaitForParam" ->
            IF r.k = "sc" THEN [s |-> [s EXCEPT !.fcb = Cycle(@), !.rc = 0, !.st = "WaitForConfig"], ev |-> NoEv]
            ELSE [s |-> s, ev |-> NoEv]
       [] s.st = "WaitForConfig" ->
            IF r.k = "sc" THEN [s |-> [s EXCEPT !.fcb = Cycle(@), !.rc = 0, !.st = "ValidateConfig"], ev |-> NoEv]
            ELSE [s |-> s, ev |-> NoEv]
       [] s.st = "ValidateConfig" ->
            LET s0 == [s EXCEPT !.rc = 0] IN
            IF diag THEN
               LET s1 == [s0 EXCEPT !.fcb = Cycle(@)] IN
               IF r.pf THEN [s |-> [s1 EXCEPT !.st = "Offline"], ev |-> "ParameterError"]
               ELSE IF r.cf THEN [s |-> [s1 EXCEPT !.st = "Offline"], ev |-> "ConfigError"]
               ELSE IF r.pr THEN [s |-> [s1 EXCEPT !.st = "WaitForParam"], ev |-> NoEv]
               ELSE IF ~r.nr THEN [s |-> [s1 EXCEPT !.st = "PreDataExchange"], ev |-> "Configured"]
               ELSE [s |-> s1, ev |-> NoEv]
            ELSE [s |-> s0, ev |-> NoEv]
       [] OTHER ->   \* PreDataExchange / DataExchange
            IF s.dif THEN
               IF diag THEN [s |-> [s EXCEPT !.fcb = Cycle(@), !.rc = 0, !.dn = FALSE, !.st = IF r.pr /\ FixF15 THEN "WaitForParam" ELSE @], ev |-> "Diagnostics"]
               ELSE [s |-> s, ev |-> NoEv]
            ELSE
               LET fin(s1, e) == [s |-> [s1 EXCEPT !.rc = 0, !.fcb = Cycle(@)], ev |-> e] IN
               IF r.k = "sc" THEN
                  IF c.nin0 THEN fin([s EXCEPT !.st = "DataExchange"], "DataExchanged") ELSE fin(s, NoEv)
               ELSE
                  LET s1 == CASE r.status = "rs" -> [s EXCEPT !.st = "ValidateConfig"]
                              [] r.status = "dh" -> [s EXCEPT !.dn = TRUE]
                              [] OTHER -> s
                      dataok == r.status \in {"ok", "dl", "dh"}
                  IN IF dataok /\ r.dxsaps /\ r.lenok THEN fin([s1 EXCEPT !.st = "DataExchange"], "DataExchanged")
                     ELSE fin(s1, NoEv)

(* ---- master: [per (sequence of peripheral states in slot order), cyc (0-based index or -1 = *)
(* CycleCompleted), ev |-> [cc, p (0 = none, else slot number 1..NP), e]]                       *)
NoPev == [p |-> 0, e |-> NoEv]
Events(cc, pev) == [cc |-> cc, p |-> pev.p, e |-> pev.e]
NoTx == [p |-> 0, svc |-> "none", fcb |-> "First"]

RECURSIVE MLoop(_, _, _, _)
MLoop(cf, m, pev, fuel) ==
  LET NP == Len(m.per) IN
  IF m.cyc = -1 THEN [m |-> [m EXCEPT !.cyc = 0, !.ev = Events(FALSE, pev)], tx |-> NoTx]
  ELSE IF m.cyc >= NP THEN [m |-> [m EXCEPT !.cyc = 0, !.ev = Events(TRUE, pev)], tx |-> NoTx]       \* no peripheral at this index
  ELSE IF pev.p # 0 THEN [m |-> [m EXCEPT !.ev = Events(FALSE, pev)], tx |-> NoTx]                   \* report the pending event first
  ELSE LET i == m.cyc + 1
           r == PTx(cf[i], m.per[i])
           m1 == [m EXCEPT !.per[i] = r.s]
       IN IF r.send # "none" THEN [m |-> [m1 EXCEPT !.ev = Events(FALSE, pev)], tx |-> [p |-> i, svc |-> r.send, fcb |-> r.s.fcb]]
          ELSE LET pev1 == IF r.ev # NoEv THEN [p |-> i, e |-> r.ev] ELSE pev IN
               IF i < NP THEN (IF fuel = 0 THEN [m |-> m1, tx |-> [p |-> 0, svc |-> "fuel", fcb |-> "First"]]
                               ELSE MLoop(cf, [m1 EXCEPT !.cyc = i], pev1, fuel - 1))
               ELSE [m |-> [m1 EXCEPT !.cyc = 0, !.ev = Events(TRUE, pev1)], tx |-> NoTx]

(* DpMaster::transmit_telegram in Operate state; gc: the global-control timer is due *)
MTx(cf, m, gc, hp) ==
  IF gc /\ ~hp THEN [m |-> [m EXCEPT !.ev = Events(FALSE, NoPev)], tx |-> [p |-> 0, svc |-> "gc", fcb |-> "Inactive"]]
  ELSE MLoop(cf, m, NoPev, Len(m.per) + 1)

(* DpMaster::receive_reply (for the peripheral the cycle is at); "panic" stands for unreachable!() *)
MRx(cf, m, r) ==
  IF m.cyc = -1 \/ m.cyc >= Len(m.per) THEN [m |-> m, panic |-> TRUE]
  ELSE LET i == m.cyc + 1
           x == PRx(cf[i], m.per[i], r)
           last == i >= Len(m.per)
       IN [m |-> [m EXCEPT !.per[i] = x.s, !.cyc = IF last THEN -1 ELSE i,
                          !.ev = Events(last, IF x.ev # NoEv THEN [p |-> i, e |-> x.ev] ELSE NoPev)],
           panic |-> FALSE]

FreshM(np) == [per |-> [i \in 1..np |-> FreshP], cyc |-> 0, ev |-> Events(FALSE, NoPev)]
=============================================================================
