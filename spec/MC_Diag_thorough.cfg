SPECIFICATION Spec
CONSTANTS Alphabet = {0, 1, 2, 3, 4, 64, 65, 66, 67, 68, 70, 128, 129, 131, 192, 255, 127, 63}
  MaxLen = 5
INVARIANT BlocksOk
INVARIANT StopsAtMalformed
CHECK_DEADLOCK FALSE
