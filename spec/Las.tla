-------------------------------- MODULE Las --------------------------------
(* Layer M: the list of active stations of one station (src/fdl/token_ring.rs).                *)
(* A ring view is a record [las, lst, ns, ps]; `me` is the owning station's address (TS).      *)
EXTENDS Naturals, Integers, FiniteSets

LasStates == {"Uninit", "Disc", "Verif", "Valid"}

Between(sa, da) == IF da > sa THEN {a \in 0..127 : a > sa /\ a < da} ELSE {a \in 0..127 : a > sa \/ a < da}
(* update_las_from_token_pass clears [sa, da) cyclically *)
ClearRange(sa, da) == IF da > sa THEN {a \in 0..127 : a >= sa /\ a < da} ELSE {a \in 0..127 : a >= sa \/ a < da}
MinOf(Q) == CHOOSE x \in Q : \A y \in Q : x <= y
MaxOf(Q) == CHOOSE x \in Q : \A y \in Q : x >= y

(* update_next_previous *)
NextOf(me, las) == LET up == {a \in las : a > me} IN IF up # {} THEN MinOf(up) ELSE IF las # {} THEN MinOf(las) ELSE me
PrevOf(me, las) == LET dn == {a \in las : a < me} IN IF dn # {} THEN MaxOf(dn) ELSE IF las # {} THEN MaxOf(las) ELSE me
Renumber(me, r, l2) == [r EXCEPT !.las = l2, !.ns = NextOf(me, l2), !.ps = PrevOf(me, l2)]

LasNew(me) == [las |-> {me}, lst |-> "Uninit", ns |-> me, ps |-> me]
LasUpdate(me, r, sa, da) == Renumber(me, r, (r.las \ ClearRange(sa, da)) \cup {sa})
LasVerify(r, sa, da) == sa \in r.las /\ da \in r.las /\ (Between(sa, da) \cap r.las = {})

(* witness_token_pass *)
Witness(me, r, sa, da) ==
  IF sa > 125 \/ da > 125 THEN r
  ELSE CASE r.lst = "Uninit" -> IF da <= sa THEN [r EXCEPT !.lst = "Disc"] ELSE r
         [] r.lst = "Disc"   -> LET u == LasUpdate(me, r, sa, da) IN IF da <= sa THEN [u EXCEPT !.lst = "Verif"] ELSE u
         [] r.lst = "Verif"  -> IF ~LasVerify(r, sa, da) THEN [LasUpdate(me, r, sa, da) EXCEPT !.lst = "Disc"]
                                ELSE IF da <= sa THEN [r EXCEPT !.lst = "Valid"] ELSE r
         [] OTHER            -> LasUpdate(me, r, sa, da)

Claim(r) == [r EXCEPT !.lst = "Valid"]
SetNext(me, r, a) == LasUpdate(me, [r EXCEPT !.las = @ \cup {a}], me, a)
RemoveStation(me, r, a) == Renumber(me, r, r.las \ {a})
=============================================================================
