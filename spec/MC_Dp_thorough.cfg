SPECIFICATION Spec
CONSTANTS FixF6 = TRUE FixF15 = TRUE Retry = 2 NP = 2 FaultBudget = 3 UserBudget = 2 Nin0 = {2} AllowGc = TRUE
INVARIANTS NoBad TypeOK
PROPERTY Recovers
CHECK_DEADLOCK FALSE
