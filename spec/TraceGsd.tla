------------------------------ MODULE TraceGsd ------------------------------
EXTENDS Gsd, Json, IOUtils
Rec == ndJsonDeserialize(IOEnv.TRACE)
AllClauses == {"C19.total", "C19.faithful", "C19.doc", "C19.fuzz.ok", "C19.fuzz.err"}
VARIABLES l, bad, cov
vars == <<l, bad, cov>>
TInit == l = 1 /\ bad = <<>> /\ cov = [c \in AllClauses |-> 0]
Judge(e) ==
  CASE e.ev = "Gsd" -> IF ~e.ok THEN [clause |-> "C19.faithful", hits |-> <<"C19.doc">>, sig |-> [what |-> "rejected", loc |-> "-"]]
                       ELSE LET d == Differs(e.doc, e.proj) IN
                            [clause |-> IF d = {} THEN "ok" ELSE "C19.faithful", hits |-> <<"C19.doc">>,
                             sig |-> [what |-> IF d = {} THEN "-" ELSE CHOOSE f \in d : TRUE, loc |-> "-"]]
    [] e.ev = "Fuzz" -> [clause |-> "ok", hits |-> <<IF e.ok THEN "C19.fuzz.ok" ELSE "C19.fuzz.err">>, sig |-> [what |-> "-", loc |-> "-"]]
    [] e.ev = "Panic" -> [clause |-> "C19.total", hits |-> <<>>, sig |-> [what |-> e.msg, loc |-> e.loc]]
    [] OTHER -> [clause |-> "ok", hits |-> <<>>, sig |-> [what |-> "-", loc |-> "-"]]
TNext ==
  /\ l <= Len(Rec) /\ l' = l + 1
  /\ LET r == Judge(Rec[l]) IN
     /\ cov' = [c \in AllClauses |-> cov[c] + Cardinality({i \in DOMAIN r.hits : r.hits[i] = c})]
     /\ bad' = IF r.clause = "ok" \/ Len(bad) >= 300 THEN bad ELSE Append(bad, [l |-> l, clause |-> r.clause, sig |-> r.sig])
TSpec == TInit /\ [][TNext]_vars
Done == l = Len(Rec) + 1 => PrintT(<<"RESULT", ToJson([n |-> Len(Rec), bad |-> bad, cov |-> cov, conf |-> [n |-> 0, ok |-> 0], drift |-> <<>>, runs |-> 0])>>)
Complete == TLCGet("stats").diameter - 1 = Len(Rec)
=============================================================================
