------------------------------ MODULE MC_Codec ------------------------------
(* TLC job for the operator specification Codec: the normative decoder satisfies every clause *)
(* of C10 on all strings over a delimiter-rich alphabet, every telegram of the structural grid *)
(* round-trips (C09), and no single-byte substitution of a grid frame is accepted (C10.subst). *)
EXTENDS Codec, TLC

CONSTANTS Alphabet,      \* byte values used to build strings
          MaxLen,        \* maximal string length
          Addrs,         \* da/sa values of the grid
          Saps,          \* dsap/ssap values of the grid (-1 = absent)
          PduLens,       \* payload lengths of the grid
          SubstVals,     \* replacement byte values
          SubstMaxLen    \* only frames up to this length are substituted

VARIABLES inp, orig, pos, val
vars == <<inp, orig, pos, val>>

NoT == [k |-> "none"]
Pdu(n, pat) == [i \in 1..n |-> IF pat = 0 THEN (i * 7) % 256 ELSE (255 - i) % 256]
Grid == {Data(da, sa, ds, ss, fc, Pdu(n, pat)) :
            da \in Addrs, sa \in Addrs, ds \in Saps, ss \in Saps, fc \in AllFc, n \in PduLens, pat \in {0, 1}}
        \cup {Token(da, sa) : da \in Addrs \cup {255}, sa \in Addrs \cup {255}}
        \cup {ShortConf}
GridOk(t) == IF t.k = "data" THEN LE(t) <= 249 ELSE TRUE

Init == \/ inp = <<>> /\ orig = NoT /\ pos = -1 /\ val = -1
        \/ \E t \in Grid : GridOk(t) /\ orig = t /\ inp = Enc(t) /\ pos = -1 /\ val = -1

Extend == /\ orig = NoT /\ Len(inp) < MaxLen
          /\ \E x \in Alphabet : inp' = Append(inp, x)
          /\ UNCHANGED <<orig, pos, val>>

Substitute == /\ orig # NoT /\ orig.k \in {"data", "sc"} /\ pos = -1 /\ Len(inp) <= SubstMaxLen
              /\ \E p \in 0..(Len(inp) - 1), v \in SubstVals :
                    /\ v # inp[p + 1]
                    /\ inp' = ReplaceAt(inp, p + 1, v) /\ pos' = p /\ val' = v
              /\ UNCHANGED orig

Next == Extend \/ Substitute
Spec == Init /\ [][Next]_vars

(* the normative decoder satisfies the C10 clauses on every input *)
DecoderClauses == DecClause(inp, Decode(inp)) = "ok"
(* ... and is prefix-consistent along every extension *)
PrefixConsistent == [][orig = NoT => C10_prefix(Decode(inp), Decode(inp'))]_vars
(* C09 on the grid: format, length, inverse, exact consumption with trailing bytes *)
RoundTrip == (orig # NoT /\ pos = -1) =>
                EncClause(orig, inp, Len(inp), Decode(inp), Decode(inp \o <<SD1, SC, 0>>)) = "ok"
(* C10.subst on the grid *)
NoMisAccept == (orig # NoT /\ pos # -1) => C10_subst(pos, val, Decode(inp))
(* function codes: values round-trip, bytes are idempotent, decoding is total *)
FcRoundTrip == /\ \A fc \in AllFc : FcFromByte(FcToByte(fc)) = fc
               /\ \A b \in Byte : LET r == FcFromByte(b) IN
                     r # FcInvalid => (r \in AllFc /\ FcFromByte(FcToByte(r)) = r)
ASSUME FcRoundTrip

(* constant values for the configurations (negative numbers cannot be written in .cfg) *)
QSaps == {-1, 62}
TSaps == {-1, 0, 54, 62, 255}
TSubst == Byte
=============================================================================
