SPECIFICATION Spec
CONSTANTS Tsl = 100 Period = 25 TxLen = 66 ChainedPass = TRUE
INVARIANT NoCollision
CHECK_DEADLOCK FALSE
