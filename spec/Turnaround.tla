----------------------------- MODULE Turnaround -----------------------------
(* Explicit-time model (unit: bit times) of one supervised hand-over: a passer P sends a token   *)
(* (or a GAP poll) and supervises the bus for one slot time; the successor S polls with its own  *)
(* period and phase, takes PollsToAnswer poll() calls from noticing the telegram to starting its  *)
(* transmission, each FSM step waiting for the synchronisation pause where the code does.         *)
(* Invariant: the first character of the answer has arrived before the passer's expiry poll -     *)
(* for every phase alignment and every jittered period in [Period/2, Period] (C01, C11 premise:   *)
(* poll period <= Tsl/4).                                                                         *)
EXTENDS Naturals, Integers, TLC

CONSTANTS Tsl,            \* slot time in bits
          Period,         \* maximal poll period in bits (premise: Tsl \div 4)
          TxLen,          \* length of the telegram sent by P in bits (token: 33)
          ChainedPass     \* TRUE: UseToken evaluates PassToken in the same poll (repair of F14)

Sync == 33
Char == 11
Steps == {Period \div 2, (3 * Period) \div 4, Period}    \* jittered poll distances

VARIABLES tp, ts,         \* next poll times of passer and successor
          sNoticed,       \* time at which S noticed the telegram (-1: not yet)
          sStage,         \* 0 idle, 1 UseToken, 2 PassToken, 3 transmitting
          sTx,            \* start of S's transmission (-1)
          pSaw,           \* P has seen activity after its own telegram
          collided
vars == <<tp, ts, sNoticed, sStage, sTx, pSaw, collided>>

Init == /\ tp \in TxLen..(TxLen + Period) /\ ts \in TxLen..(TxLen + Period)     \* first polls after the end of P's telegram, any phase
        /\ sNoticed = -1 /\ sStage = 0 /\ sTx = -1 /\ pSaw = FALSE /\ collided = FALSE

(* S polls at time ts *)
SPoll ==
  /\ ts <= tp /\ sStage < 3 /\ ~collided
  /\ \E d \in Steps : ts' = ts + d
  /\ IF sStage = 0
     THEN \* the telegram is complete in the receive buffer: noticed now, ActiveIdle -> UseToken
          /\ sNoticed' = ts /\ sStage' = 1 /\ UNCHANGED sTx
     ELSE IF ts <= sNoticed + Sync THEN UNCHANGED <<sNoticed, sStage, sTx>>     \* wait_synchronization_pause
     ELSE IF sStage = 1
          THEN IF ChainedPass THEN sStage' = 3 /\ sTx' = ts /\ UNCHANGED sNoticed
               ELSE sStage' = 2 /\ UNCHANGED <<sNoticed, sTx>>                   \* UseToken -> PassToken, returns
          ELSE sStage' = 3 /\ sTx' = ts /\ UNCHANGED sNoticed                   \* PassToken transmits
  /\ UNCHANGED <<tp, pSaw, collided>>

(* P polls at time tp: activity is noticed before the slot timer is evaluated *)
PPoll ==
  /\ tp < ts \/ sStage = 3
  /\ ~pSaw /\ ~collided
  /\ \E d \in Steps : tp' = tp + d
  /\ LET heard == sTx # -1 /\ sTx + Char <= tp IN
     /\ pSaw' = heard
     /\ collided' = (~heard /\ tp > TxLen + Tsl)          \* check_slot_expired: retransmits into S's telegram / too early
  /\ UNCHANGED <<ts, sNoticed, sStage, sTx>>

Next == SPoll \/ PPoll
Spec == Init /\ [][Next]_vars
NoCollision == ~collided
=============================================================================
