SPECIFICATION Spec
CONSTANTS N = 5 Self = 0 ChangeBudget = 3 LossBudget = 2
INVARIANT NoViol
INVARIANT EventsMatchList
INVARIANT Converged
PROPERTY EventuallyExact
CONSTRAINT QuietCap
CHECK_DEADLOCK FALSE
