------------------------------- MODULE TraceRx -------------------------------
EXTENDS RxPath, Json, IOUtils
Rec == ndJsonDeserialize(IOEnv.TRACE)
VARIABLES l, rs, bad, cov, conf
vars == <<l, rs, bad, cov, conf>>
TInit == l = 1 /\ rs = SessInit /\ bad = <<>> /\ cov = [c \in AllClauses |-> 0] /\ conf = [n |-> 0, ok |-> 0]
Step(e) ==
  CASE e.ev = "Send"   -> OnSend(rs, e) @@ [m |-> TRUE]
    [] e.ev = "Junk"   -> OnJunk(rs, e) @@ [m |-> TRUE]
    [] e.ev = "Arrive" -> OnArrive(rs, e) @@ [m |-> TRUE]
    [] e.ev = "Call"   -> OnCall(rs, e)
    [] e.ev = "End"    -> OnEnd(rs, e) @@ [m |-> TRUE]
    [] e.ev = "Panic"  -> R("C16.total", [loc |-> e.loc], rs, <<>>) @@ [m |-> TRUE]
    [] OTHER           -> R("ok", NoSig, rs, <<>>) @@ [m |-> TRUE]
TNext ==
  /\ l <= Len(Rec)
  /\ l' = l + 1
  /\ LET e == Rec[l] IN
     IF e.ev = "Reset" THEN rs' = SessInit /\ UNCHANGED <<bad, cov, conf>>
     ELSE LET r == Step(e) IN
          /\ rs' = r.rs
          /\ cov' = [c \in AllClauses |-> cov[c] + Cardinality({i \in DOMAIN r.hits : r.hits[i] = c})]
          /\ conf' = IF e.ev = "Call" THEN [n |-> conf.n + 1, ok |-> conf.ok + (IF r.m THEN 1 ELSE 0)] ELSE conf
          /\ bad' = IF r.clause = "ok" \/ Len(bad) >= 100 THEN bad ELSE Append(bad, [l |-> l, clause |-> r.clause, sig |-> r.sig])
TSpec == TInit /\ [][TNext]_vars
Done == l = Len(Rec) + 1 => PrintT(<<"RESULT", ToJson([n |-> Len(Rec), bad |-> bad, cov |-> cov, conf |-> conf, drift |-> <<>>, runs |-> 0])>>)
Complete == TLCGet("stats").diameter - 1 = Len(Rec)
=============================================================================
