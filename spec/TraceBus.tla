------------------------------ MODULE TraceBus ------------------------------
(* Trace specification: validates an event log of the real stack (one or more runs separated   *)
(* by Reset, each starting with Cfg) against the rule monitor BusRules.                        *)
EXTENDS BusRules, Json, IOUtils

CONSTANTS FixF2, FixF3, FixF14
M == INSTANCE FdlStation

(* ---- layer-M conformance of a logged poll (hook view before/after, inputs as realised) *)
LasOfJson(r) == [las |-> ToSet(r.las), lst |-> r.lst, ns |-> r.ns, ps |-> r.ps]
StateOfJson(v) == [v EXCEPT !.ring = LasOfJson(v.ring)]
(* canonical form: fields that are meaningless in the current state are blanked (as the harness does) *)
JunkAt(buf) == LET js == {i \in DOMAIN buf : buf[i].k = "junk"} IN IF js = {} THEN 0 ELSE CHOOSE i \in js : \A j \in js : i <= j
Canon(s) ==
  LET f == s.fsm IN
  [s EXCEPT !.buf = IF JunkAt(@) = 0 THEN @ ELSE SubSeq(@, 1, JunkAt(@)),     \* undecodable data hides what follows
            !.tail = IF JunkAt(s.buf) = 0 THEN @ ELSE FALSE, !.sr = IF f \in {"Listen", "ActiveIdle"} THEN @ ELSE -1,
            !.np = IF f = "ActiveIdle" THEN @ ELSE -1,
            !.cc = IF f \in {"Listen", "ActiveIdle"} THEN @ ELSE 0,
            !.att = IF f \in {"PassToken", "CheckPass"} THEN @ ELSE 1,
            !.dogap = IF f = "PassToken" THEN @ ELSE FALSE,
            !.step = IF f = "Claim" THEN @ ELSE "First",
            !.aw = IF f = "AwaitStatus" \/ (f = "Claim" /\ s.step = "Await") THEN @ ELSE -1,
            !.fcd = IF f = "UseToken" THEN @ ELSE FALSE,
            !.fa = IF f \in {"UseToken", "AwaitData"} THEN @ ELSE -1,
            !.dat = IF f = "AwaitData" THEN @ ELSE -1]
NormCb(c) == [k |-> c.k, app |-> c.app,
              a |-> IF c.k = "reply" THEN (IF c.a = "sc" THEN "sc" ELSE "resp") ELSE c.a]
MeOf(cfg, e) == [ts |-> e.st, hsa |-> cfg.hsa, g |-> cfg.gap, napps |-> cfg.napps[Idx(cfg, e.st)]]
Explained(cfg, e, panicked) ==
  LET r == M!DoPoll(MeOf(cfg, e), StateOfJson(e.mpre), e.in) IN
  IF panicked THEN r.s.panic # "none"
  ELSE /\ r.s.panic = "none"
       /\ Canon(r.s) = StateOfJson(e.mpost)
       /\ r.tx = e.mtx
       /\ [i \in DOMAIN r.cbs |-> NormCb(r.cbs[i])] = e.mcbs
HasM(e) == e.ev = "Poll" /\ "mpre" \in DOMAIN e

Rec == ndJsonDeserialize(IOEnv.TRACE)

VARIABLES l, rs, bad, cov, dead, deadc, deadp, runs, conf, drift
vars == <<l, rs, bad, cov, dead, deadc, deadp, runs, conf, drift>>

(* clauses whose violation does not disturb the monitor's tracking of the wire: the run is judged
   further (each such clause is reported once per run); any other violation ends the judgement of
   the run (no cascades) *)
LocalClauses == {"C12.cadence", "C12.range", "C12.reply.state", "C12.reply.when", "C12.ready", "C13.hold", "C13.starve",
                 "C15.rr", "C15.done", "C15.once", "C15.form", "C11.own", "C02.stable", "C02.order", "C06.stable", "C06.order", "C06.alive"}

NoCfg == [none |-> TRUE]

TInit == l = 1 /\ rs = NoCfg /\ bad = <<>> /\ cov = [c \in AllClauses |-> 0] /\ dead = TRUE /\ deadc = {} /\ deadp = {} /\ runs = 0 /\ conf = [n |-> 0, ok |-> 0] /\ drift = <<>>

TNext ==
  /\ l <= Len(Rec)
  /\ l' = l + 1
  /\ LET e == Rec[l]
         m == HasM(e) /\ ~dead
         ex == IF m THEN Explained(rs.cfg, e, e.panicked) ELSE TRUE
     IN /\ conf' = IF m THEN [n |-> conf.n + 1, ok |-> conf.ok + (IF ex THEN 1 ELSE 0)] ELSE conf
        /\ drift' = IF m /\ ~ex /\ Len(drift) < 20 THEN Append(drift, l) ELSE drift
        /\ (m /\ ~ex /\ Len(drift) < 2) =>
              LET r == M!DoPoll(MeOf(rs.cfg, e), StateOfJson(e.mpre), e.in) IN
              PrintT(<<"DRIFT", l, "model", Canon(r.s), r.tx, r.cbs, "real", StateOfJson(e.mpost), e.mtx, e.mcbs>>)
  /\ LET e == Rec[l] IN
     IF e.ev = "Cfg" THEN rs' = RuleInit(e) /\ dead' = FALSE /\ deadc' = {} /\ deadp' = {} /\ runs' = runs + 1 /\ UNCHANGED <<bad, cov>>
     ELSE IF e.ev = "Reset" THEN dead' = TRUE /\ UNCHANGED <<rs, bad, cov, runs, deadc, deadp>>
     ELSE IF dead THEN UNCHANGED <<rs, bad, cov, dead, deadc, deadp, runs>>
     ELSE LET r == RuleStep(rs, e)
              \* a clause is reported once per run; a non-local violation ends the judgement of ITS property for the run
              \* (no cascades inside a property); the clauses of the other properties go on being judged, so that the
              \* check of each property sees its own rejections even when another property is rejected first
              new == SelectSeq(r.all, LAMBDA c : c \notin deadc /\ PropOf(c) \notin deadp)
          IN /\ rs' = r.rs
             /\ cov' = [c \in AllClauses |-> cov[c] + Cardinality({i \in DOMAIN r.hits : r.hits[i] = c})]
             /\ runs' = runs
             /\ bad' = bad \o [i \in 1..Len(new) |-> [l |-> l, clause |-> new[i], sig |-> r.sig]]
             /\ deadc' = deadc \cup {new[i] : i \in DOMAIN new}
             /\ deadp' = deadp \cup {PropOf(new[i]) : i \in {j \in DOMAIN new : new[j] \notin LocalClauses}}
             /\ dead' = (\E i \in DOMAIN r.all : r.all[i] \in {"C05.panic", "C05.hang"})

TSpec == TInit /\ [][TNext]_vars

Done == l = Len(Rec) + 1 =>
          PrintT(<<"RESULT", ToJson([n |-> Len(Rec), bad |-> bad, cov |-> cov, conf |-> conf, drift |-> drift, runs |-> runs])>>)
Complete == TLCGet("stats").diameter - 1 = Len(Rec)
=============================================================================
