SPECIFICATION Spec
CONSTANTS
  Alphabet = {16}
  MaxLen = 0
  Addrs = {0, 2, 126, 127}
  Saps <- TSaps
  PduLens = {0, 1, 7, 8, 9, 100, 243, 244, 245, 246}
  SubstVals = {0}
  SubstMaxLen = 0
INVARIANT RoundTrip
CHECK_DEADLOCK FALSE
