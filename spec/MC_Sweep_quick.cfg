SPECIFICATION Spec
CONSTANTS N = 4 Self = 1 ChangeBudget = 2 LossBudget = 1
INVARIANT NoViol
INVARIANT EventsMatchList
INVARIANT Converged
PROPERTY EventuallyExact
CONSTRAINT QuietCap
CHECK_DEADLOCK FALSE
