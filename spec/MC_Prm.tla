------------------------------- MODULE MC_Prm -------------------------------
(* Frame lemma of the normative field writer, exhaustively: for every byte value, every bit /      *)
(* bit-area position and every value, the field holds the value afterwards and no other bit         *)
(* changed; integer types at boundary values keep all other bytes and hold the value (C20 on the   *)
(* operators).                                                                                      *)
EXTENDS Prm
CONSTANTS ByteVals, IntVals
VARIABLES byte, ty, val
vars == <<byte, ty, val>>
BitTypes == {[k |-> "bit", a |-> b, b |-> b] : b \in 0..7} \cup {[k |-> "bitarea", a |-> a, b |-> b] : a \in 0..7, b \in 0..7}
Lim(n) == <<0, 0, 0, n>>
Init == byte \in ByteVals /\ ty \in {t \in BitTypes : t.a <= t.b} /\ val \in 0..255
Next == UNCHANGED vars
Spec == Init /\ [][Next]_vars
BitOf(x, i) == (x \div (2 ^ i)) % 2
Extract(x, lo, hi) == (x \div (2 ^ lo)) % (2 ^ (hi - lo + 1))
FrameLemma ==
  InTypeRange(ty, Lim(val)) =>
    LET new == WriteField(<<byte>>, 0, ty, Lim(val))[1] IN
    /\ new \in 0..255
    /\ Extract(new, ty.a, ty.b) = val
    /\ \A i \in 0..7 : (i < ty.a \/ i > ty.b) => BitOf(new, i) = BitOf(byte, i)
(* integer types: big-endian two's complement, other bytes untouched *)
IntLemma ==
  \A t \in {[k |-> k, a |-> 0, b |-> 0] : k \in {"u8", "u16", "u32", "s8", "s16", "s32"}} :
    \A v \in IntVals :
      InTypeRange(t, v) =>
        LET blk == WriteField(<<17, 34, 51, 68, 85, 102>>, 1, t, v) IN
        /\ blk[1] = 17 /\ \A i \in (2 + Size(t))..6 : blk[i] = <<17, 34, 51, 68, 85, 102>>[i]
        /\ SubSeq(blk, 2, 1 + Size(t)) = BytesOf(t, v)
ASSUME IntLemma
AllBytes == 0..255
IntValsDef == {<<0,0,0,0>>, <<0,0,0,1>>, <<0,0,0,127>>, <<0,0,0,128>>, <<0,0,0,255>>, <<0,0,0,256>>, <<0,0,0,32767>>, <<0,0,0,32768>>, <<0,0,0,65535>>, <<0,0,1,0>>, <<0,0,32767,65535>>, <<0,0,32768,0>>, <<0,0,65535,65535>>, <<0,1,0,0>>, <<65535,65535,65535,65535>>, <<65535,65535,65535,65408>>, <<65535,65535,65535,32768>>, <<65535,65535,32768,0>>, <<65535,65535,65535,65407>>, <<65535,65535,32767,65535>>}
=============================================================================
