------------------------------ MODULE MC_RxPath ------------------------------
(* All chunkings and call interleavings for all sequences of up to MaxTel telegrams out of a     *)
(* small set: the helper calls of RxPath deliver exactly the telegrams sent, in order, each once, *)
(* with is_last exactly when nothing is buffered behind (C16 on the model).                       *)
EXTENDS RxPath

CONSTANTS MaxTel, MaxChunk

Frames == <<
  <<SC>>,
  <<SD4, 3, 2>>,
  Enc(Data(3, 2, -1, -1, FcReq(0, 0, 9), <<>>)),
  Enc(Data(3, 2, 62, 60, FcResp(0, 8), <<1, 2>>)),
  Enc(Data(5, 2, -1, -1, FcResp(0, 8), <<1, 2, 3, 4, 5, 6, 7, 8>>)) >>

VARIABLES seq, arrived, buf, delivered, lastFlags
vars == <<seq, arrived, buf, delivered, lastFlags>>

RECURSIVE Concat(_)
Concat(s) == IF s = <<>> THEN <<>> ELSE Frames[Head(s)] \o Concat(Tail(s))
Stream == Concat(seq)

Init == /\ seq \in UNION {[1..n -> 1..Len(Frames)] : n \in 1..MaxTel}
        /\ arrived = 0 /\ buf = <<>> /\ delivered = <<>> /\ lastFlags = <<>>

Arrive == \E n \in 1..MaxChunk :
            /\ arrived + n <= Len(Stream)
            /\ buf' = buf \o SubSeq(Stream, arrived + 1, arrived + n)
            /\ arrived' = arrived + n
            /\ UNCHANGED <<seq, delivered, lastFlags>>
Call(one) ==
  LET r == IF one THEN RecvOne(buf) ELSE RecvAll(buf)
      used(i) == LET RECURSIVE S(_) S(j) == IF j = 0 THEN 0 ELSE r.cbs[j].n + S(j - 1) IN S(i)
  IN /\ buf' = r.buf
     /\ delivered' = delivered \o [i \in DOMAIN r.cbs |-> r.cbs[i].t]
     /\ lastFlags' = lastFlags \o [i \in DOMAIN r.cbs |-> r.cbs[i].last = (used(i) = Len(buf))]
     /\ UNCHANGED <<seq, arrived>>
Next == Arrive \/ Call(TRUE) \/ Call(FALSE)
Spec == Init /\ [][Next]_vars

Expected(i) == WithPdu(Parse(Frames[seq[i]]), Frames[seq[i]])
(* C16.order: what was delivered so far is a prefix of what was sent *)
OrderOk == /\ Len(delivered) <= Len(seq)
           /\ \A i \in DOMAIN delivered : delivered[i] = Expected(i)
(* C16.last *)
LastOk == \A i \in DOMAIN lastFlags : lastFlags[i]
(* C16.keep: buffered bytes are exactly the undelivered part of what arrived *)
KeepOk == buf = SubSeq(Stream, arrived - Len(buf) + 1, arrived)
(* once everything arrived, one receive_all delivers the rest *)
DrainOk == arrived = Len(Stream) => Len(delivered) + Len(RecvAll(buf).cbs) = Len(seq)
=============================================================================
