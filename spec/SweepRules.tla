----------------------------- MODULE SweepRules -----------------------------
(* Layer P for C18: live list (src/fdl/live_list.rs) and DP scanner (src/dp/scan.rs) against a   *)
(* population of responders that changes between phases.  Events are collected after every poll. *)
EXTENDS Naturals, Integers, Sequences, FiniteSets, SequencesExt, TLC

R(clause, sig, rs, hits) == [clause |-> clause, sig |-> sig, rs |-> rs, hits |-> hits]
NoSig == [x |-> 0]

RuleInit(cfg) == [cfg |-> cfg, resp |-> {}, prev |-> {}, dp |-> <<>>, list |-> {}, found |-> {}, idents |-> <<>>, probes |-> 0]

ProbeDa(b) == IF b[1] = 104 THEN b[5] % 128 ELSE b[2] % 128
DpAddrs(rs) == {rs.dp[i][1] : i \in DOMAIN rs.dp}
IdentOf(rs, a) == LET S == {i \in DOMAIN rs.dp : rs.dp[i][1] = a} IN IF S = {} THEN -1 ELSE rs.dp[CHOOSE i \in S : TRUE][2]
Scanner(rs) == rs.cfg.kind = "scanner"
(* what should be known: answering stations other than the scanning station itself *)
Expected(rs) == (IF Scanner(rs) THEN DpAddrs(rs) ELSE rs.resp) \ {rs.cfg.ts}

RuleStep(rs, e) ==
  CASE e.ev = "Responders" ->
         R("ok", NoSig, [rs EXCEPT !.prev = rs.resp \cup ToSet(e.set), !.resp = ToSet(e.set), !.dp = e.dp, !.probes = 0], <<>>)
    [] e.ev = "Tx" /\ "app" \in DOMAIN e ->
         IF e.app THEN R(IF ProbeDa(e.b) \in 0..125 THEN "ok" ELSE "C18.range", [addr |-> ProbeDa(e.b)], [rs EXCEPT !.probes = @ + 1], <<"C18.range">>)
         ELSE R("ok", NoSig, rs, <<>>)
    [] e.ev = "Ev" ->
         IF e.k = "Found" THEN
              R(CASE e.addr \in rs.found -> "C18.alternate"
                  [] e.addr \notin rs.prev \/ e.addr = rs.cfg.ts -> "C18.spurious"
                  [] Scanner(rs) /\ e.addr \in DpAddrs(rs) /\ e.ident # IdentOf(rs, e.addr) -> "C18.ident"
                  [] OTHER -> "ok",
                [addr |-> e.addr], [rs EXCEPT !.found = @ \cup {e.addr}], <<"C18.alternate", "C18.found">>)
         ELSE IF e.k = "Lost" THEN
              R(IF e.addr \in rs.found THEN "ok" ELSE "C18.alternate", [addr |-> e.addr], [rs EXCEPT !.found = @ \ {e.addr}], <<"C18.alternate", "C18.lost">>)
         ELSE R(IF e.addr \in rs.found THEN "ok" ELSE "C18.alternate", [addr |-> e.addr], rs, <<"C18.requery">>)
    [] e.ev = "List" -> R("ok", NoSig, [rs EXCEPT !.list = ToSet(e.stations)], <<>>)
    [] e.ev = "Stable" ->
         \* two full sweeps without population change and without lost replies
         IF e.lossy \/ rs.probes < 2 * 126 THEN R("ok", NoSig, rs, <<"C18.phase.lossy">>)
         ELSE LET want == Expected(rs)
                  have == IF Scanner(rs) THEN rs.found ELSE rs.list
              IN R(CASE have # want -> "C18.converge"
                     [] ~Scanner(rs) /\ rs.found # rs.list -> "C18.events"      \* events and list tell the same story
                     [] OTHER -> "ok",
                   [missing |-> Cardinality(want \ have), extra |-> Cardinality(have \ want)], rs, <<"C18.converge">>)
    [] e.ev = "Panic" -> R("C18.total", [loc |-> e.loc], rs, <<>>)
    [] e.ev = "Hang" -> R("C18.total", NoSig, rs, <<>>)
    [] OTHER -> R("ok", NoSig, rs, <<>>)

AllClauses == {"C18.range", "C18.alternate", "C18.spurious", "C18.ident", "C18.converge", "C18.events", "C18.total",
               "C18.found", "C18.lost", "C18.requery", "C18.phase.lossy"}
=============================================================================
