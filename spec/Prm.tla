--------------------------------- MODULE Prm ---------------------------------
(* User-parameter block packing of the GSD crate (gsd-parser/src/lib.rs: PrmBuilder,             *)
(* UserPrmDataType::write_value_to_slice) as a normative definition (C20).                      *)
(* 64-bit values are given as limbs <<l3, l2, l1, l0>> of their two's complement representation  *)
(* (16 bit each; TLC integers are 32 bit).  Blocks are 1-based sequences of bytes; offsets are    *)
(* 0-based as in the GSD file.                                                                    *)
EXTENDS Naturals, Integers, Sequences, FiniteSets, SequencesExt, TLC

(* ------------------------------------------------------------------ 64-bit values as limbs *)
IsZeroExt(v, n) == \A i \in 1..(4 - n) : v[i] = 0                         \* upper limbs zero
IsOneExt(v, n) == \A i \in 1..(4 - n) : v[i] = 65535
(* signed comparison of limb vectors *)
Key(v) == <<(v[1] + 32768) % 65536, v[2], v[3], v[4]>>
LexLe(a, b) == \/ a[1] < b[1]
               \/ a[1] = b[1] /\ a[2] < b[2]
               \/ a[1] = b[1] /\ a[2] = b[2] /\ a[3] < b[3]
               \/ a[1] = b[1] /\ a[2] = b[2] /\ a[3] = b[3] /\ a[4] <= b[4]
Le(a, b) == LexLe(Key(a), Key(b))

(* ------------------------------------------------------------------ data types *)
Size(ty) == CASE ty.k \in {"u8", "s8", "bit", "bitarea"} -> 1 [] ty.k \in {"u16", "s16"} -> 2 [] OTHER -> 4
InTypeRange(ty, v) ==
  CASE ty.k = "u8"  -> IsZeroExt(v, 1) /\ v[4] < 256
    [] ty.k = "u16" -> IsZeroExt(v, 1)
    [] ty.k = "u32" -> IsZeroExt(v, 2)
    [] ty.k = "s8"  -> (IsZeroExt(v, 1) /\ v[4] < 128) \/ (IsOneExt(v, 1) /\ v[4] >= 65536 - 128)
    [] ty.k = "s16" -> (IsZeroExt(v, 1) /\ v[4] < 32768) \/ (IsOneExt(v, 1) /\ v[4] >= 32768)
    [] ty.k = "s32" -> (IsZeroExt(v, 2) /\ v[3] < 32768) \/ (IsOneExt(v, 2) /\ v[3] >= 32768)
    [] ty.k = "bit" -> IsZeroExt(v, 1) /\ v[4] \in {0, 1}
    [] OTHER        -> IsZeroExt(v, 1) /\ v[4] < 2 ^ (ty.b - ty.a + 1)
(* big-endian two's complement bytes of an in-range value *)
BytesOf(ty, v) ==
  CASE Size(ty) = 1 -> <<v[4] % 256>>
    [] Size(ty) = 2 -> <<v[4] \div 256, v[4] % 256>>
    [] OTHER        -> <<v[3] \div 256, v[3] % 256, v[4] \div 256, v[4] % 256>>
(* replace bits lo..hi of byte x by val *)
SetBits(x, lo, hi, val) ==
  LET w == 2 ^ (hi - lo + 1)
      low == x % (2 ^ lo)
      high == x \div (2 ^ (hi + 1))
  IN high * (2 ^ (hi + 1)) + (val % w) * (2 ^ lo) + low

(* the field holds v and nothing else changes (precondition: v in range, block long enough) *)
WriteField(block, off, ty, v) ==
  CASE ty.k = "bit"     -> [block EXCEPT ![off + 1] = SetBits(@, ty.a, ty.a, v[4])]
    [] ty.k = "bitarea" -> [block EXCEPT ![off + 1] = SetBits(@, ty.a, ty.b, v[4])]
    [] OTHER            -> [i \in DOMAIN block |-> IF i > off /\ i <= off + Size(ty) THEN BytesOf(ty, v)[i - off] ELSE block[i]]

(* what the BitArea defect of the pinned code does (finding F9): the whole byte is replaced by the *)
(* shifted value; used only to recognise that known finding precisely                            *)
WriteFieldF9(block, off, ty, v) ==
  IF ty.k = "bitarea" THEN [block EXCEPT ![off + 1] = (v[4] * (2 ^ ty.a)) % 256] ELSE WriteField(block, off, ty, v)

Satisfies(c, v) == CASE c.k = "minmax" -> Le(c.min, v) /\ Le(v, c.max)
                     [] c.k = "enum"   -> \E i \in DOMAIN c.vals : c.vals[i] = v
                     [] OTHER          -> TRUE

(* ------------------------------------------------------------------ building the block *)
MaxN(a, b) == IF a > b THEN a ELSE b
BlockLen(desc) ==
  LET RECURSIVE C(_) C(i) == IF i = 0 THEN 0 ELSE MaxN(C(i - 1), desc.consts[i].off + Len(desc.consts[i].data))
      RECURSIVE F(_) F(i) == IF i = 0 THEN 0 ELSE MaxN(F(i - 1), desc.refs[i].off + Size(desc.refs[i].ty))
  IN MaxN(C(Len(desc.consts)), F(Len(desc.refs)))
RECURSIVE Overlay(_, _, _)
Overlay(block, consts, i) ==
  IF i > Len(consts) THEN block
  ELSE Overlay([j \in DOMAIN block |-> IF j > consts[i].off /\ j <= consts[i].off + Len(consts[i].data) THEN consts[i].data[j - consts[i].off] ELSE block[j]], consts, i + 1)
RECURSIVE Defaults(_, _, _)
Defaults(block, refs, i) ==
  IF i > Len(refs) THEN block ELSE Defaults(WriteField(block, refs[i].off, refs[i].ty, refs[i].default), refs, i + 1)
DefaultsOk(desc) == \A i \in DOMAIN desc.refs : InTypeRange(desc.refs[i].ty, desc.refs[i].default)
Build(desc) == Defaults(Overlay([i \in 1..BlockLen(desc) |-> 0], desc.consts, 1), desc.refs, 1)
RECURSIVE DefaultsF9(_, _, _)
DefaultsF9(block, refs, i) ==
  IF i > Len(refs) THEN block ELSE DefaultsF9(WriteFieldF9(block, refs[i].off, refs[i].ty, refs[i].default), refs, i + 1)
BuildF9(desc) == DefaultsF9(Overlay([i \in 1..BlockLen(desc) |-> 0], desc.consts, 1), desc.refs, 1)

(* first reference with that name (0 = none) *)
FindRef(desc, name) == LET S == {i \in DOMAIN desc.refs : desc.refs[i].name = name} IN IF S = {} THEN 0 ELSE CHOOSE i \in S : \A j \in S : i <= j
TextValue(r, text) == LET S == {i \in DOMAIN r.texts : r.texts[i].t = text} IN IF S = {} THEN <<>> ELSE r.texts[CHOOSE i \in S : TRUE].v

(* ------------------------------------------------------------------ layer P: judge recorded calls *)
(* New: e.desc, e.ok, e.bytes *)
NewClause(e) ==
  IF ~DefaultsOk(e.desc) THEN (IF e.ok THEN "C20.range" ELSE "ok")
  ELSE IF ~e.ok THEN "C20.build"
  ELSE IF e.bytes # Build(e.desc) THEN "C20.build" ELSE "ok"

NewKnown(e) == IF DefaultsOk(e.desc) /\ e.ok /\ e.bytes # Build(e.desc) /\ e.bytes = BuildF9(e.desc) THEN "F9" ELSE "-"
SetKnown(e) ==
  LET i == FindRef(e.desc, e.name) IN
  IF i = 0 \/ e.res # "ok" THEN "-"
  ELSE LET r == e.desc.refs[i]
           v == IF e.text # "-" THEN (IF r.hastexts THEN TextValue(r, e.text) ELSE <<>>) ELSE e.v
       IN IF v # <<>> /\ r.ty.k = "bitarea" /\ e.post = WriteFieldF9(e.pre, r.off, r.ty, v) /\ e.post # WriteField(e.pre, r.off, r.ty, v) THEN "F9" ELSE "-"

(* Set: e.desc, e.name, e.v (limbs, <<>> if the text was unknown / by text), e.text (-1 or string), e.pre, e.post, e.res ("ok" | error kind) *)
SetClause(e) ==
  LET i == FindRef(e.desc, e.name) IN
  IF i = 0 THEN (IF e.res = "ok" THEN "C20.error" ELSE IF e.post # e.pre THEN "C20.error" ELSE "ok")
  ELSE LET r == e.desc.refs[i]
           bytext == e.text # "-"
           v == IF bytext THEN (IF r.hastexts THEN TextValue(r, e.text) ELSE <<>>) ELSE e.v
       IN IF v = <<>> THEN (IF e.res = "ok" \/ e.post # e.pre THEN "C20.error" ELSE "ok")
          ELSE LET accept == Satisfies(r.constraint, v) /\ InTypeRange(r.ty, v) IN
               IF ~accept THEN (IF e.res = "ok" THEN "C20.range" ELSE IF e.post # e.pre THEN "C20.error" ELSE "ok")
               ELSE IF e.res # "ok" THEN "C20.range"
               ELSE LET want == WriteField(e.pre, r.off, r.ty, v) IN
                    IF e.post = want THEN "ok"
                    \* tell apart "the field does not hold the value" from "other bits changed"
                    ELSE IF WriteField(e.post, r.off, r.ty, v) = e.post THEN "C20.frame" ELSE "C20.field"
=============================================================================
