SPECIFICATION Spec
CONSTANTS MaxLen = 5
INVARIANT Compact
INVARIANT MaxModDefault
INVARIANT Legacy
INVARIANT Resolution
CHECK_DEADLOCK FALSE
