SPECIFICATION TSpec
CONSTANTS FixF2 = TRUE FixF3 = TRUE FixF14 = TRUE
INVARIANT Done
POSTCONDITION Complete
CHECK_DEADLOCK FALSE
