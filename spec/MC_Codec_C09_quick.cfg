SPECIFICATION Spec
CONSTANTS
  Alphabet = {16}
  MaxLen = 0
  Addrs = {0, 2, 126, 127}
  Saps <- QSaps
  PduLens = {0, 1, 7, 8, 9, 243, 244}
  SubstVals = {0}
  SubstMaxLen = 0
INVARIANT RoundTrip
CHECK_DEADLOCK FALSE
