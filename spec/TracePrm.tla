------------------------------ MODULE TracePrm ------------------------------
EXTENDS Prm, Json, IOUtils
Rec == ndJsonDeserialize(IOEnv.TRACE)
AllClauses == {"C20.build", "C20.field", "C20.frame", "C20.range", "C20.error", "C20.total", "C20.new", "C20.set.ok", "C20.set.err"}
VARIABLES l, desc, bad, cov
vars == <<l, desc, bad, cov>>
TInit == l = 1 /\ desc = [consts |-> <<>>, refs |-> <<>>] /\ bad = <<>> /\ cov = [c \in AllClauses |-> 0]
Judge(e) ==
  CASE e.ev = "New" -> [clause |-> NewClause(e), hits |-> <<"C20.new">>, sig |-> [k |-> "new", ty |-> "-", known |-> NewKnown(e)]]
    [] e.ev = "Set" -> LET ee == [e EXCEPT !.v = @] @@ [desc |-> desc]
                           i == FindRef(desc, e.name) IN
                       [clause |-> SetClause(ee), hits |-> <<IF e.res = "ok" THEN "C20.set.ok" ELSE "C20.set.err">>,
                        sig |-> [k |-> "set", ty |-> IF i = 0 THEN "-" ELSE desc.refs[i].ty.k, known |-> SetKnown(ee)]]
    [] e.ev = "Panic" -> [clause |-> "C20.total", hits |-> <<>>, sig |-> [k |-> e.during, ty |-> "-", known |-> "-"]]
    [] OTHER -> [clause |-> "ok", hits |-> <<>>, sig |-> [k |-> "-", ty |-> "-", known |-> "-"]]
TNext ==
  /\ l <= Len(Rec) /\ l' = l + 1
  /\ LET e == Rec[l] r == Judge(e) IN
     /\ desc' = IF e.ev = "New" THEN e.desc ELSE desc
     /\ cov' = [c \in AllClauses |-> cov[c] + Cardinality({i \in DOMAIN r.hits : r.hits[i] = c})]
     /\ bad' = IF r.clause = "ok" \/ Len(bad) >= 200 THEN bad ELSE Append(bad, [l |-> l, clause |-> r.clause, sig |-> r.sig])
TSpec == TInit /\ [][TNext]_vars
Done == l = Len(Rec) + 1 => PrintT(<<"RESULT", ToJson([n |-> Len(Rec), bad |-> bad, cov |-> cov, conf |-> [n |-> 0, ok |-> 0], drift |-> <<>>, runs |-> 0])>>)
Complete == TLCGet("stats").diameter - 1 = Len(Rec)
=============================================================================
