SPECIFICATION SSpec
CONSTANTS FixF6 = TRUE FixF15 = TRUE Retry = 1 NP = 1 FaultBudget = 2 UserBudget = 1 Nin0 = {} AllowGc = FALSE
INVARIANT EmitState
VIEW SView
CHECK_DEADLOCK FALSE
