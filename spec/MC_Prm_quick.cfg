SPECIFICATION Spec
CONSTANTS ByteVals = {0, 255, 170, 85, 1, 128, 60}
  IntVals <- IntValsDef
INVARIANT FrameLemma
CHECK_DEADLOCK FALSE
