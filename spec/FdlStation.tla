----------------------------- MODULE FdlStation -----------------------------
(* Layer M: `FdlActiveStation::poll` (src/fdl/active.rs) as a function                         *)
(*     DoPoll(me, s, in) = [s |-> station state after the call, tx |-> telegrams sent (<= 1),  *)
(*                          cbs |-> application call-backs made]                              *)
(* one operator per Rust function, one case per branch, chained where the code chains them.    *)
(* The code's own assertions (debug_assert_state!, debug_assert_ne!, unwrap, unreachable!) are *)
(* modelled: tripping one sets s.panic to a label.                                             *)
(*                                                                                             *)
(* me = [ts |-> address, hsa |-> HSA, g |-> gap_wait_rotations, napps |-> number of apps]      *)
(* in = [rx |-> newly arrived complete telegrams, partial |-> incomplete bytes at the tail,    *)
(*       busy |-> own transmission still in progress, sync |-> 33 bit idle elapsed,            *)
(*       slot |-> slot time elapsed, lost |-> token time-out elapsed, hold |-> before end of   *)
(*       token hold time, app |-> answers of the applications asked in this poll]              *)
EXTENDS Las, Sequences, TLC

CONSTANTS FixF2, FixF3, FixF14     \* TRUE = behaviour after the corresponding repair of DESIGN section 7

(* ------------------------------------------------------------------ telegrams (abstract) *)
Tok(sa, da) == [k |-> "tok", sa |-> sa, da |-> da, st |-> 0]
SReq(sa, da) == [k |-> "sreq", sa |-> sa, da |-> da, st |-> 0]
(* any response data telegram; st = station state bits of the function code, status Ok *)
SResp(sa, da, st) == [k |-> "sresp", sa |-> sa, da |-> da, st |-> st]
(* response with a non-Ok status *)
EResp(sa, da, st) == [k |-> "eresp", sa |-> sa, da |-> da, st |-> st]
(* any other request data telegram *)
DReq(sa, da) == [k |-> "dreq", sa |-> sa, da |-> da, st |-> 0]
SCt == [k |-> "sc", sa |-> -1, da |-> -1, st |-> 0]
Junk == [k |-> "junk", sa |-> -1, da |-> -1, st |-> 0]
HasSrc(t) == t.k \notin {"sc", "junk"}
IsResponse(t) == t.k \in {"sresp", "eresp"}

(* application answers *)
Decline == [a |-> "decline", da |-> -1]
SendReply(da) == [a |-> "send", da |-> da]      \* request that expects a reply from da
SendNoReply == [a |-> "sendn", da |-> -1]       \* request without reply (SDN)
AppReq(sa, da, reply) == [k |-> IF reply THEN "areq" ELSE "areqn", sa |-> sa, da |-> da, st |-> 0]

(* ------------------------------------------------------------------ station record *)
Fresh(me) ==
  [conn |-> "Online", fsm |-> "Offline", sr |-> -1, np |-> -1, cc |-> 0, att |-> 1, dogap |-> FALSE,
   step |-> "First", aw |-> -1, fcd |-> FALSE, fa |-> -1, na |-> 0, dat |-> -1,
   gw |-> FALSE, gn |-> me.ts,               \* gap_state: gw ? Waiting{rotation_count = gn} : DoPoll{current_address = gn}
   ring |-> LasNew(me.ts), buf |-> <<>>, tail |-> FALSE, panic |-> "none"]
OfflineStation(me) == [Fresh(me) EXCEPT !.conn = "Offline"]

Res(s, tx, cbs) == [s |-> s, tx |-> tx, cbs |-> cbs]
Panic(s, label) == IF s.panic = "none" THEN [s EXCEPT !.panic = label] ELSE s

(* transition_*: allowed predecessor sets exactly as written in the code *)
Go(s, to, allowed) == IF s.fsm \in allowed THEN [s EXCEPT !.fsm = to] ELSE Panic(s, "transition_" \o to \o " from " \o s.fsm)
ToListen(s) == [Go(s, "Listen", {"Listen", "Offline", "ActiveIdle"}) EXCEPT !.sr = -1, !.cc = 0]
ToActiveIdle(s) ==
  [Go(s, "ActiveIdle", {"ActiveIdle", "Listen", "UseToken", "AwaitData", "CheckPass", "AwaitStatus"} \cup (IF FixF3 THEN {"Claim"} ELSE {}))
     EXCEPT !.sr = -1, !.np = -1, !.cc = 0]
(* new token visit: UseTokenData::with_token_time(now) *)
ToUseTokenNew(s) == [Go(s, "UseToken", {"UseToken", "Claim", "PassToken", "AwaitData", "ActiveIdle"}) EXCEPT !.fcd = FALSE, !.fa = -1]
(* back from AwaitDataResponse with the same UseTokenData *)
ToUseTokenBack(s) == [Go(s, "UseToken", {"UseToken", "Claim", "PassToken", "AwaitData", "ActiveIdle"}) EXCEPT !.fcd = TRUE]
ToClaim(s) == [Go(s, "Claim", {"Claim", "Listen", "ActiveIdle"}) EXCEPT !.step = "First"]
ToAwaitData(s, a) == [Go(s, "AwaitData", {"AwaitData", "UseToken"}) EXCEPT !.dat = a]
ToPassToken(s, dg, att) == [Go(s, "PassToken", {"PassToken", "UseToken", "Claim", "CheckPass", "AwaitStatus"}) EXCEPT !.dogap = dg, !.att = att]
ToCheckPass(s, att) == [Go(s, "CheckPass", {"CheckPass", "PassToken"}) EXCEPT !.att = att]
ToAwaitStatus(s, a) == [Go(s, "AwaitStatus", {"AwaitStatus", "PassToken"}) EXCEPT !.aw = a]

(* ------------------------------------------------------------------ GAP *)
InGapOf(me, a, ns) ==
  a # me.ts /\ (IF ns > me.ts THEN a > me.ts /\ a < ns ELSE IF ns < me.ts THEN (a > me.ts \/ a < ns) ELSE TRUE)
(* next_gap_poll: next address strictly inside (TS, NS) cyclically, else Waiting{0} *)
NextGapPoll(me, s, cur) ==
  LET nxt == IF cur = me.hsa - 1 THEN 0 ELSE cur + 1 IN
  IF InGapOf(me, nxt, s.ring.ns) THEN [s EXCEPT !.gw = FALSE, !.gn = nxt] ELSE [s EXCEPT !.gw = TRUE, !.gn = 0]

(* transmit_gap_poll_if_pending (precondition ~s.gw): debug_assert_ne!(current_address, address) *)
TransmitGapPoll(me, s) ==
  IF s.gn = me.ts THEN Res(Panic(s, "gap poll to own address"), <<>>, <<>>) ELSE Res(s, <<SReq(me.ts, s.gn)>>, <<>>)

(* ------------------------------------------------------------------ PHY receive helpers over s.buf / s.tail *)
(* receive_telegram: at most the first telegram; undecodable data discards everything *)
RecvOne(s) ==
  IF s.buf = <<>> THEN [t |-> Junk, got |-> FALSE, s |-> s]
  ELSE IF Head(s.buf).k = "junk" THEN [t |-> Junk, got |-> FALSE, s |-> [s EXCEPT !.buf = <<>>, !.tail = FALSE]]
  ELSE [t |-> Head(s.buf), got |-> TRUE, s |-> [s EXCEPT !.buf = Tail(s.buf)]]

(* await_gap_poll_response *)
AwaitGap(me, s, in, a) ==
  IF a = me.ts \/ s.gw \/ s.gn # a THEN [r |-> "panic", s |-> Panic(s, "await_gap_poll_response assert")]
  ELSE LET rv == RecvOne(s) IN
       IF rv.got THEN
          LET t == rv.t IN
          IF IsResponse(t) /\ t.sa = a /\ t.da = me.ts
          THEN [r |-> "resp", s |-> IF t.k = "sresp" /\ t.st \in {2, 3} THEN [rv.s EXCEPT !.ring = SetNext(me.ts, @, a)] ELSE rv.s]
          ELSE [r |-> "unexp", s |-> rv.s]
       ELSE IF in.slot THEN [r |-> "none", s |-> rv.s] ELSE [r |-> "wait", s |-> rv.s]

(* ------------------------------------------------------------------ handle_telegram (ActiveIdle) *)
HandleTelegram(me, s, t, last) ==
  IF s.fsm = "Listen" \/ s.panic # "none" THEN s
  ELSE IF s.fsm # "ActiveIdle" THEN Panic(s, "handle_telegram not in ActiveIdle")
  ELSE IF t.k = "tok" THEN
         IF t.sa = me.ts THEN (IF s.cc + 1 >= 2 THEN ToListen(s) ELSE [s EXCEPT !.cc = @ + 1])
         ELSE LET s1 == [s EXCEPT !.cc = 0] IN
              IF t.da # me.ts \/ ~last THEN [s1 EXCEPT !.ring = Witness(me.ts, @, t.sa, t.da)]
              ELSE IF t.sa = s1.ring.ps THEN ToUseTokenNew(s1)
              ELSE IF s1.np = t.sa THEN ToUseTokenNew([s1 EXCEPT !.ring = Witness(me.ts, @, t.sa, t.da)])
              ELSE [s1 EXCEPT !.np = t.sa]
  ELSE IF t.k = "sreq" /\ t.da = me.ts /\ last THEN [s EXCEPT !.sr = t.sa]
  ELSE s

(* do_listen_token RX call-back *)
ListenOne(me, s, t, last) ==
  IF s.conn = "Offline" THEN s
  ELSE IF HasSrc(t) /\ t.sa = me.ts
       THEN (IF s.cc + 1 >= 2 THEN [OfflineStation(me) EXCEPT !.buf = s.buf, !.tail = s.tail] ELSE [s EXCEPT !.cc = @ + 1])
  ELSE IF t.k = "tok" THEN [s EXCEPT !.ring = Witness(me.ts, @, t.sa, t.da)]
  ELSE IF t.k = "sreq" /\ t.da = me.ts /\ last THEN [s EXCEPT !.sr = t.sa]
  ELSE s

(* receive_all_telegrams: f is "listen" | "idle" | "check" (first telegram special in CheckTokenPass) *)
RECURSIVE RecvAll(_, _, _, _)
RecvAll(me, s, f, first) ==
  IF s.buf = <<>> \/ s.panic # "none" THEN s
  ELSE IF Head(s.buf).k = "junk" THEN [s EXCEPT !.buf = <<>>, !.tail = FALSE]
  ELSE LET t == Head(s.buf)
           rest == Tail(s.buf)
           last == rest = <<>> /\ ~s.tail
           s0 == [s EXCEPT !.buf = rest]
           s1 == IF f = "listen" THEN ListenOne(me, s0, t, last)
                 ELSE IF f = "check" /\ first THEN
                      (* warn!("Unexpected station #{} ...", source_address().unwrap()) when the source is not NS *)
                      IF ~FixF2 /\ ~HasSrc(t) THEN Panic(s0, "unwrap on None source_address")
                      ELSE HandleTelegram(me, ToActiveIdle(s0), t, last)
                 ELSE HandleTelegram(me, s0, t, last)
       IN RecvAll(me, [s1 EXCEPT !.buf = rest], f, FALSE)

(* ------------------------------------------------------------------ applications *)
(* apps_transmit_telegram: ask apps[na] in turn; answers are consumed from `ans` *)
RECURSIVE AppsTransmit(_, _, _, _, _)
AppsTransmit(me, s, ans, i, cbs) ==
  IF i >= me.napps THEN Res(s, <<>>, cbs)
  ELSE LET a == IF Len(ans) > 0 THEN Head(ans) ELSE Decline
           cb == <<[k |-> "transmit", app |-> s.na, a |-> a.a]>>
       IN IF a.a = "send" THEN Res(ToAwaitData(s, a.da), <<AppReq(me.ts, a.da, TRUE)>>, cbs \o cb)
          ELSE IF a.a = "sendn" THEN Res(s, <<AppReq(me.ts, 127, FALSE)>>, cbs \o cb)
          ELSE LET fa == IF s.fa = -1 THEN s.na ELSE s.fa
                   na == (s.na + 1) % me.napps
                   s1 == [s EXCEPT !.fa = fa, !.na = na]
               IN IF na = fa THEN Res(s1, <<>>, cbs \o cb)
                  ELSE AppsTransmit(me, s1, IF Len(ans) > 0 THEN Tail(ans) ELSE ans, i + 1, cbs \o cb)

(* ------------------------------------------------------------------ do_pass_token *)
DoPassToken(me, s, in) ==
  IF s.panic # "none" THEN Res(s, <<>>, <<>>)
  ELSE IF ~in.sync THEN Res(s, <<>>, <<>>)
  ELSE LET s1 == IF s.dogap THEN
                    (IF s.gw THEN (IF s.gn > me.g THEN NextGapPoll(me, s, me.ts) ELSE [s EXCEPT !.gn = @ + 1])
                     ELSE NextGapPoll(me, s, s.gn))
                  ELSE s
       IN IF s.dogap /\ ~s1.gw
          THEN LET r == TransmitGapPoll(me, s1) IN
               IF r.s.panic # "none" THEN r ELSE Res(ToAwaitStatus(r.s, s1.gn), r.tx, <<>>)
          ELSE LET ns == s1.ring.ns
                   s2 == [s1 EXCEPT !.ring = Witness(me.ts, @, me.ts, ns)]
               IN IF s2.ring.ns = me.ts THEN Res(ToUseTokenNew(s2), <<Tok(me.ts, ns)>>, <<>>)
                  ELSE Res(ToCheckPass(s2, s2.att), <<Tok(me.ts, ns)>>, <<>>)

(* ------------------------------------------------------------------ do_use_token *)
DoUseToken(me, s, in, cbs0) ==
  IF s.panic # "none" THEN Res(s, <<>>, cbs0)
  ELSE IF ~in.sync THEN Res(s, <<>>, cbs0)
  ELSE LET ask == in.hold \/ ~s.fcd
           r == IF ask THEN AppsTransmit(me, [s EXCEPT !.fcd = TRUE], in.app, 0, cbs0) ELSE Res(s, <<>>, cbs0)
       IN IF r.tx # <<>> THEN r
          ELSE LET s1 == ToPassToken(r.s, TRUE, 1) IN
               IF FixF14 THEN (LET p == DoPassToken(me, s1, in) IN Res(p.s, p.tx, r.cbs)) ELSE Res(s1, <<>>, r.cbs)

(* ------------------------------------------------------------------ do_claim_token *)
RECURSIVE DoClaim(_, _, _, _)
DoClaim(me, s, in, fuel) ==
  IF s.panic # "none" THEN Res(s, <<>>, <<>>)
  ELSE IF s.step \in {"First", "Second"} THEN
     IF ~in.sync THEN Res(s, <<>>, <<>>)
     ELSE Res([s EXCEPT !.ring = Claim(@), !.step = IF s.step = "First" THEN "Second" ELSE "Scan", !.gw = FALSE, !.gn = me.ts],
              <<Tok(me.ts, me.ts)>>, <<>>)
  ELSE IF s.step = "Scan" THEN
     IF ~in.sync THEN Res(s, <<>>, <<>>)
     ELSE IF s.gw THEN Res(ToPassToken(s, FALSE, 1), <<>>, <<>>)
     ELSE LET s1 == NextGapPoll(me, s, s.gn) IN
          IF ~s1.gw THEN LET r == TransmitGapPoll(me, s1) IN Res([r.s EXCEPT !.step = "Await", !.aw = s1.gn], r.tx, <<>>)
          ELSE Res(s1, <<>>, <<>>)
  ELSE \* ScanAwaitResponse
     LET a == AwaitGap(me, s, in, s.aw) IN
     CASE a.r = "panic" -> Res(a.s, <<>>, <<>>)
       [] a.r = "wait"  -> Res(a.s, <<>>, <<>>)
       [] a.r = "resp"  -> Res([a.s EXCEPT !.step = "Scan"], <<>>, <<>>)
       [] a.r = "none"  -> IF fuel = 0 THEN Res(Panic(a.s, "claim recursion"), <<>>, <<>>)
                           ELSE DoClaim(me, [a.s EXCEPT !.step = "Scan"], in, fuel - 1)
       [] OTHER         -> Res(ToActiveIdle(a.s), <<>>, <<>>)

HandleLostToken(me, s, in) == DoClaim(me, ToClaim(s), in, 2)

(* ------------------------------------------------------------------ poll *)
DoPoll(me, s, in) ==
  IF s.panic # "none" THEN Res(s, <<>>, <<>>)
  ELSE IF s.conn = "Offline"      \* the station does nothing; the PHY keeps buffering
  THEN Res([s EXCEPT !.buf = @ \o in.rx, !.tail = IF in.rx # <<>> THEN in.partial ELSE (@ \/ in.partial)], <<>>, <<>>)
  ELSE LET sA == [(IF s.fsm = "Offline" THEN ToListen(s) ELSE s) EXCEPT !.buf = @ \o in.rx,
                     \* an incomplete telegram stays pending until further bytes complete it
                     !.tail = IF in.rx # <<>> THEN in.partial ELSE (@ \/ in.partial)] IN
  IF in.busy THEN Res(sA, <<>>, <<>>)
  ELSE CASE sA.fsm = "Listen" ->
              IF in.lost THEN HandleLostToken(me, sA, in)
              ELSE IF sA.sr # -1 THEN
                     IF ~in.sync THEN Res(sA, <<>>, <<>>)
                     ELSE LET ready == sA.ring.lst = "Valid"
                              st == IF ready /\ sA.sr = sA.ring.ps THEN 2 ELSE 1
                          IN Res(IF ready THEN ToActiveIdle(sA) ELSE [sA EXCEPT !.sr = -1], <<SResp(me.ts, sA.sr, st)>>, <<>>)
              ELSE Res(RecvAll(me, sA, "listen", TRUE), <<>>, <<>>)
         [] sA.fsm = "ActiveIdle" ->
              IF in.lost THEN HandleLostToken(me, sA, in)
              ELSE IF sA.sr # -1 THEN
                     IF ~in.sync THEN Res(sA, <<>>, <<>>) ELSE Res([sA EXCEPT !.sr = -1], <<SResp(me.ts, sA.sr, 3)>>, <<>>)
              ELSE Res(RecvAll(me, sA, "idle", TRUE), <<>>, <<>>)
         [] sA.fsm = "Claim" -> DoClaim(me, sA, in, 2)
         [] sA.fsm = "UseToken" -> DoUseToken(me, sA, in, <<>>)
         [] sA.fsm = "AwaitData" ->
              LET rv == RecvOne(sA) IN
              IF rv.got THEN
                 LET t == rv.t
                     valid == t.k = "sc" \/ (IsResponse(t) /\ t.sa = sA.dat /\ t.da = me.ts)
                 IN IF valid THEN Res(ToUseTokenBack(rv.s), <<>>, <<[k |-> "reply", app |-> sA.na, a |-> t.k]>>)
                    ELSE Res(ToActiveIdle(rv.s), <<>>, <<>>)
              ELSE IF in.slot THEN DoUseToken(me, ToUseTokenBack(rv.s), in, <<[k |-> "timeout", app |-> sA.na, a |-> ""]>>)
              ELSE Res(rv.s, <<>>, <<>>)
         [] sA.fsm = "PassToken" -> DoPassToken(me, sA, in)
         [] sA.fsm = "AwaitStatus" ->
              LET a == AwaitGap(me, sA, in, sA.aw) IN
              CASE a.r = "panic" -> Res(a.s, <<>>, <<>>)
                [] a.r = "wait" -> Res(a.s, <<>>, <<>>)
                [] a.r = "resp" -> Res(ToPassToken(a.s, FALSE, 1), <<>>, <<>>)
                [] a.r = "none" -> DoPassToken(me, ToPassToken(a.s, FALSE, 1), in)
                [] OTHER -> Res(ToActiveIdle(a.s), <<>>, <<>>)
         [] sA.fsm = "CheckPass" ->
              IF in.slot THEN
                 LET s1 == CASE sA.att = 1 -> ToPassToken(sA, FALSE, 2)
                             [] sA.att = 2 -> ToPassToken(sA, FALSE, 3)
                             [] OTHER -> ToPassToken([sA EXCEPT !.ring = RemoveStation(me.ts, @, sA.ring.ns)], FALSE, 1)
                 IN DoPassToken(me, s1, in)
              ELSE Res(RecvAll(me, sA, "check", TRUE), <<>>, <<>>)
         [] OTHER -> Res(Panic(sA, "state not implemented"), <<>>, <<>>)

(* public view of a station *)
InRing(s) == s.fsm \in {"UseToken", "PassToken", "ActiveIdle", "Claim", "CheckPass", "AwaitData", "AwaitStatus"}
HaveToken(s) == s.fsm \in {"Claim", "UseToken", "AwaitData", "AwaitStatus"}
=============================================================================
