------------------------------ MODULE TraceDiag ------------------------------
EXTENDS Diag, Json, IOUtils
Rec == ndJsonDeserialize(IOEnv.TRACE)
AllClauses == {"C17.header", "C17.fit", "C17.blocks", "C17.kinds", "C17.total", "C17.call", "C17.ext", "C17.nonempty", "C17.scan"}
VARIABLES l, bad, cov
vars == <<l, bad, cov>>
TInit == l = 1 /\ bad = <<>> /\ cov = [c \in AllClauses |-> 0]
Judge(e) ==
  CASE e.ev = "Diag" -> [clause |-> DiagClause(e),
                         hits |-> <<"C17.call">> \o (IF HasExt(e.pdu) THEN <<"C17.ext">> ELSE <<>>) \o (IF Len(Blocks(e.stored)) > 0 THEN <<"C17.nonempty">> ELSE <<>>),
                         sig |-> [bufsize |-> e.bufsize, first |-> IF Len(e.stored) > 0 THEN e.stored[1] ELSE -1]]
    [] e.ev = "Scan" -> LET info == DiagInfo(e.pdu) IN
                        [clause |-> IF e.ident = info.ident /\ e.master = info.master /\ e.address = e.sa THEN "ok" ELSE "C17.header",
                         hits |-> <<"C17.scan">>, sig |-> [bufsize |-> -1, first |-> -1]]
    [] e.ev = "Panic" -> [clause |-> "C17.total", hits |-> <<>>, sig |-> [loc |-> e.loc]]
    [] OTHER -> [clause |-> "ok", hits |-> <<>>, sig |-> [x |-> 0]]
TNext ==
  /\ l <= Len(Rec) /\ l' = l + 1
  /\ LET r == Judge(Rec[l]) IN
     /\ cov' = [c \in AllClauses |-> cov[c] + Cardinality({i \in DOMAIN r.hits : r.hits[i] = c})]
     /\ bad' = IF r.clause = "ok" \/ Len(bad) >= 100 THEN bad ELSE Append(bad, [l |-> l, clause |-> r.clause, sig |-> r.sig])
TSpec == TInit /\ [][TNext]_vars
Done == l = Len(Rec) + 1 => PrintT(<<"RESULT", ToJson([n |-> Len(Rec), bad |-> bad, cov |-> cov, conf |-> [n |-> 0, ok |-> 0], drift |-> <<>>, runs |-> 0])>>)
Complete == TLCGet("stats").diameter - 1 = Len(Rec)
=============================================================================
