---------------------------- MODULE MC_FdlSingle ----------------------------
(* One station (FdlStation!DoPoll) against an adversarial peer: per poll the peer chooses which   *)
(* telegrams arrived (<= 2), which timer situation holds and what the application answers.       *)
(* TLC explores every reachable station state to depth MaxDepth and checks the model-level       *)
(* forms of C05 (NoPanic), C11 (listen, accept, max3) and C12 (range).  `hist` (hidden by VIEW)   *)
(* records the inputs: every distinct state / every transition yields a schedule for replay      *)
(* against the real code (pbv single).                                                           *)
EXTENDS FdlStation, Json

CONSTANTS TS, HSA, G, NApps,
          Others,        \* addresses the peer uses as source/destination besides TS
          AppTargets,    \* destinations of application requests
          MaxDepth,
          WithPartial,   \* explore polls that leave an incomplete telegram in the buffer
          Warm,          \* start from a station that has been admitted to a ring {WarmPS, TS, WarmNS} (fixed input prefix)
          WarmPS, WarmNS,
          Held,          \* (with Warm) the start state additionally holds the token just received from WarmPS
          Emit           \* "none" | "state" | "edge": print schedules

Me == [ts |-> TS, hsa |-> HSA, g |-> G, napps |-> NApps]

VARIABLES st, depth, mon, viol, hist
vars == <<st, depth, mon, viol, hist>>

PeerAddrs == Others \cup {TS}
Other1 == CHOOSE a \in Others : TRUE
Telegrams ==
  {Tok(a, b) : a \in PeerAddrs, b \in PeerAddrs}
  \cup {SReq(a, TS) : a \in Others}
  \cup {SResp(a, TS, x) : a \in Others, x \in {1, 2, 3}}
  \cup {SResp(Other1, TS, 0), SCt, Junk, DReq(Other1, TS), EResp(Other1, TS, 2)}
(* two telegrams in one poll: a repeated offer, an offer followed by more traffic (not last), *)
(* traffic followed by an offer                                                                *)
Pairs ==
  {<<Tok(a, TS), Tok(a, TS)>> : a \in Others}
  \cup {<<Tok(a, TS), Tok(a, Other1)>> : a \in Others}
  \cup {<<Tok(Other1, a), Tok(a, TS)>> : a \in Others}
  \cup {<<SReq(Other1, TS), Tok(Other1, TS)>>, <<Junk, Tok(Other1, TS)>>}
RxChoices == {<<>>} \cup {<<t>> : t \in Telegrams} \cup Pairs
Timers == {<<FALSE, FALSE, FALSE>>, <<TRUE, FALSE, FALSE>>, <<TRUE, TRUE, FALSE>>, <<TRUE, TRUE, TRUE>>}
AppAnswers == {<<Decline>>} \cup {<<SendReply(d)>> : d \in AppTargets} \cup {<<SendNoReply>>}

Inputs(s) ==
  LET appRelevant == NApps > 0 /\ s.fsm \in {"UseToken", "AwaitData"}
      apps == IF appRelevant THEN AppAnswers ELSE {<<>>}
      holds == IF appRelevant THEN {TRUE, FALSE} ELSE {TRUE}
  IN {[rx |-> rx, partial |-> p, busy |-> FALSE, sync |-> tm[1], slot |-> tm[2], lost |-> tm[3], hold |-> h, app |-> a] :
        rx \in RxChoices, p \in (IF WithPartial THEN {FALSE, TRUE} ELSE {FALSE}), tm \in Timers, h \in holds, a \in apps}

(* new bytes mean fresh bus activity: no timer can have elapsed in that poll *)
WellFormed(in) == (in.rx # <<>> \/ in.partial) => (~in.sync /\ ~in.slot /\ ~in.lost)

MonInit == [offers |-> {}, passes |-> 0, passTo |-> -1]

(* warm start: the peers circulate the token until the LAS is valid, then the predecessor polls the *)
(* station, which answers 'ready' and is in the ring (ActiveIdle) - as a fixed prefix of inputs      *)
RxIn(rx) == [rx |-> rx, partial |-> FALSE, busy |-> FALSE, sync |-> FALSE, slot |-> FALSE, lost |-> FALSE, hold |-> TRUE, app |-> <<>>]
QuietIn == [rx |-> <<>>, partial |-> FALSE, busy |-> FALSE, sync |-> TRUE, slot |-> FALSE, lost |-> FALSE, hold |-> TRUE, app |-> <<>>]
WarmInputs0 == <<RxIn(<<Tok(WarmNS, WarmPS)>>), RxIn(<<Tok(WarmPS, WarmNS)>>), RxIn(<<Tok(WarmNS, WarmPS)>>),
                RxIn(<<Tok(WarmPS, WarmNS)>>), RxIn(<<Tok(WarmNS, WarmPS)>>), RxIn(<<Tok(WarmPS, WarmNS)>>), RxIn(<<Tok(WarmNS, WarmPS)>>),
                RxIn(<<SReq(WarmPS, TS)>>), QuietIn>>
(* held start: the admitted station has just been handed the token by its predecessor (UseToken) *)
WarmInputs == IF Held THEN WarmInputs0 \o <<RxIn(<<Tok(WarmPS, TS)>>)>> ELSE WarmInputs0
RECURSIVE RunInputs(_, _)
RunInputs(s, ins) == IF ins = <<>> THEN s ELSE RunInputs(DoPoll(Me, s, Head(ins)).s, Tail(ins))

Init == /\ st = IF Warm THEN RunInputs(Fresh(Me), WarmInputs) ELSE Fresh(Me)
        /\ depth = 0 /\ mon = MonInit /\ viol = "none"
        /\ hist = IF Warm THEN WarmInputs ELSE <<>>

InGapP(a, ns) == a # TS /\ a < HSA /\ (IF ns > TS THEN a > TS /\ a < ns ELSE IF ns < TS THEN (a > TS \/ a < ns) ELSE TRUE)

Step(in) ==
  LET r == DoPoll(Me, st, in)
      tx == r.tx
      allRx == st.buf \o in.rx          \* what the PHY buffer holds when the station looks at it
      lastRx == IF allRx # <<>> THEN allRx[Len(allRx)] ELSE Junk
      \* a token addressed to TS that is the last telegram in the buffer is an offer
      offered == allRx # <<>> /\ lastRx.k = "tok" /\ lastRx.da = TS /\ lastRx.sa # TS /\ ~in.partial
      accepts == st.fsm = "ActiveIdle" /\ r.s.fsm = "UseToken"
      gappoll == tx # <<>> /\ tx[1].k = "sreq"
      tokOut == tx # <<>> /\ tx[1].k = "tok" /\ tx[1].da # TS
      passes == IF tokOut THEN (IF mon.passTo = tx[1].da THEN mon.passes + 1 ELSE 1) ELSE IF tx # <<>> \/ in.rx # <<>> THEN 0 ELSE mon.passes
      v == IF gappoll /\ ~InGapP(tx[1].da, st.ring.ns) THEN "C12.range"
           ELSE IF st.fsm \in {"Listen", "Offline"} /\ (r.s.fsm = "UseToken" \/ tokOut) THEN "C11.listen"
           ELSE IF accepts /\ ~(offered /\ (lastRx.sa = st.ring.ps \/ lastRx.sa = r.s.ring.ps \/ lastRx.sa \in mon.offers)) THEN "C11.accept"
           ELSE IF passes > 3 THEN "C11.max3"
           ELSE viol
  IN /\ st' = r.s
     /\ depth' = IF r.s = st /\ tx = <<>> THEN depth ELSE depth + 1
     /\ mon' = [offers |-> IF accepts \/ r.s.fsm \notin {"ActiveIdle"} THEN {} ELSE IF offered THEN mon.offers \cup {lastRx.sa} ELSE mon.offers,
                passes |-> passes, passTo |-> IF tokOut THEN tx[1].da ELSE IF tx # <<>> \/ in.rx # <<>> THEN -1 ELSE mon.passTo]
     /\ viol' = v
     /\ hist' = Append(hist, in)

Next == /\ depth < MaxDepth /\ st.panic = "none" /\ viol = "none"
        /\ \E in \in Inputs(st) : WellFormed(in) /\ Step(in)
Spec == Init /\ [][Next]_vars

NoPanic == st.panic = "none"
RulesOk == viol = "none"
WarmOk == Warm => (depth = 0 => st.fsm = (IF Held THEN "UseToken" ELSE "ActiveIdle"))
TypeOk == st.fsm \in {"Offline", "Listen", "ActiveIdle", "UseToken", "Claim", "AwaitData", "PassToken", "CheckPass", "AwaitStatus"}
          /\ st.ring.lst \in LasStates /\ st.ring.ns \in 0..127 /\ st.ring.ps \in 0..127
View == <<st, depth, mon, viol>>
BufBound == Len(st.buf) <= 2

(* schedule extraction (DESIGN 2.4) *)
EmitState == (Emit = "state" /\ Len(st.buf) <= 2) => PrintT(<<"SCHED", ToJson([h |-> hist, fsm |-> st.fsm, key |-> ToString(<<st, mon>>)])>>)
EmitEdge == Emit = "edge" => PrintT(<<"SCHED", ToJson([h |-> hist', fsm |-> st'.fsm, key |-> ToString(<<st, mon, hist'[Len(hist')]>>)])>>)
=============================================================================
