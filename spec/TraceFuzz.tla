------------------------------ MODULE TraceFuzz ------------------------------
(* C05 on byte-level fuzzing runs (pbv fuzz): the only observable is whether poll() returned.  *)
(* A `Panic` or `Hang` event is a violation; per run the FDL states visited and the counters   *)
(* are folded into the coverage record so that the evidence shows what the fuzzing reached.    *)
EXTENDS Json, IOUtils, TLC, Sequences, Integers, FiniteSets
Rec == ndJsonDeserialize(IOEnv.TRACE)
VARIABLES l, bad, cov, apps
tvars == <<l, bad, cov, apps>>
Bump(c, k, n) == IF k \in DOMAIN c THEN [c EXCEPT ![k] = @ + n] ELSE c @@ (k :> n)
RECURSIVE BumpAll(_, _, _)
BumpAll(c, ks, i) == IF i > Len(ks) THEN c ELSE BumpAll(Bump(c, ks[i], 1), ks, i + 1)
Init == l = 1 /\ bad = <<>> /\ cov = [x \in {} |-> 0] /\ apps = "?"
Next ==
  /\ l <= Len(Rec)
  /\ LET e == Rec[l] IN
     /\ l' = l + 1
     /\ apps' = IF e.ev = "Cfg" THEN e.apps ELSE apps
     /\ bad' = bad \o (IF e.ev = "Panic" THEN <<[l |-> l, clause |-> "C05.panic", sig |-> [loc |-> e.loc]]>>
                       ELSE IF e.ev = "Hang" THEN <<[l |-> l, clause |-> "C05.hang", sig |-> [loc |-> "-"]]>> ELSE <<>>)
     /\ cov' = IF e.ev = "End" THEN Bump(Bump(Bump(BumpAll(Bump(cov, "runs." \o apps, 1), [i \in 1..Len(e.states) |-> "state." \o e.states[i]], 1), "polls", e.polls), "rxbytes", e.rxbytes), "txs", e.txs)
               ELSE IF e.ev = "Panic" THEN Bump(cov, "C05.panic", 1) ELSE cov
Spec == Init /\ [][Next]_tvars
Done == l > Len(Rec) => PrintT(<<"RESULT", ToJson([n |-> Len(Rec), bad |-> bad, cov |-> cov])>>)
Complete == TLCGet("stats").diameter - 1 = Len(Rec)
=============================================================================
