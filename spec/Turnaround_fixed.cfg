SPECIFICATION Spec
CONSTANTS Tsl = 100 Period = 25 TxLen = 33 ChainedPass = TRUE
INVARIANT NoCollision
CHECK_DEADLOCK FALSE
