------------------------------- MODULE MC_Diag -------------------------------
(* TLC explores every extension byte string up to MaxLen over the header alphabet and checks that *)
(* the block machine terminates with blocks inside the buffer, consecutive and non-overlapping.   *)
EXTENDS Diag
CONSTANTS Alphabet, MaxLen
VARIABLE buf
Init == buf = <<>>
Next == Len(buf) < MaxLen /\ \E x \in Alphabet : buf' = Append(buf, x)
Spec == Init /\ [][Next]_buf
BlocksOk == Inside(buf) /\ Consecutive(buf) /\ Len(Blocks(buf)) <= Len(buf)
(* a malformed block stops the iteration: the blocks are a prefix-closed function of the buffer *)
StopsAtMalformed == LET bs == Blocks(buf)
                        endoff == IF bs = <<>> THEN 0 ELSE bs[Len(bs)].off + bs[Len(bs)].len
                    IN endoff = Len(buf) \/ BlockAt(buf, endoff).k = "stop"
=============================================================================
