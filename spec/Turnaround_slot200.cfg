SPECIFICATION Spec
CONSTANTS Tsl = 200 Period = 50 TxLen = 33 ChainedPass = TRUE
INVARIANT NoCollision
CHECK_DEADLOCK FALSE
