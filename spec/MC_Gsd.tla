------------------------------- MODULE MC_Gsd -------------------------------
(* Sanity of the statement interpreter on all sequences of up to MaxLen statements from a small  *)
(* alphabet: the post-processing rules (legacy parameters, Max_Module default, compact stations) *)
(* and definition-before-use resolution hold for every order of statements.                       *)
EXTENDS Gsd
CONSTANTS MaxLen
L(n) == <<0, 0, 0, n>>
Def(id, name, tr) == [s |-> "extprm", id |-> id, name |-> name, ty |-> [k |-> "u8", a |-> 0, b |-> 0], default |-> L(1),
                      constraint |-> [k |-> "none", min |-> L(0), max |-> L(0), vals |-> <<>>], textref |-> tr, changeable |-> TRUE, visible |-> TRUE]
Alphabet == {
  [s |-> "set", key |-> "modular_station", v |-> TRUE], [s |-> "set", key |-> "modular_station", v |-> FALSE],
  [s |-> "set", key |-> "max_module", v |-> 7],
  [s |-> "prmtext", id |-> 1, vals |-> <<[t |-> "a", v |-> L(1)], [t |-> "a", v |-> L(2)]>>],
  [s |-> "prmtext", id |-> 1, vals |-> <<[t |-> "b", v |-> L(3)]>>],
  Def(1, "x", 1), Def(1, "y", -1),
  [s |-> "prmref", off |-> 0, id |-> 1], [s |-> "prmconst", off |-> 0, data |-> <<9>>],
  [s |-> "userprm", data |-> <<1, 2>>], [s |-> "userprmlen", n |-> 2], [s |-> "maxuserprmlen"],
  [s |-> "module", name |-> "m", config |-> <<1>>, reference |-> 1, info |-> "", len |-> 0, consts |-> <<>>, refs |-> <<>>],
  [s |-> "slot", number |-> 1, name |-> "s", default |-> 1, allowed |-> <<1, 2>>] }
(* a statement may only be appended if it is well-formed with respect to what precedes it *)
HasText(doc) == \E i \in DOMAIN doc : doc[i].s = "prmtext"
HasDef(doc) == \E i \in DOMAIN doc : doc[i].s = "extprm"
HasMod(doc) == \E i \in DOMAIN doc : doc[i].s = "module"
Wf(doc, x) == /\ (x.s = "extprm" /\ x.textref # -1) => HasText(doc)
              /\ x.s = "prmref" => HasDef(doc)
              /\ x.s = "slot" => HasMod(doc)
VARIABLE doc
Init == doc = <<>>
Next == Len(doc) < MaxLen /\ \E x \in Alphabet : Wf(doc, x) /\ doc' = Append(doc, x)
Spec == Init /\ [][Next]_doc
R == Interp(doc)
NewStyle == \E i \in DOMAIN doc : doc[i].s \in {"prmref", "prmconst", "maxuserprmlen"}
FirstNew == IF NewStyle THEN CHOOSE i \in DOMAIN doc : doc[i].s \in {"prmref", "prmconst", "maxuserprmlen"} /\ \A j \in 1..(i - 1) : doc[j].s \notin {"prmref", "prmconst", "maxuserprmlen"} ELSE Len(doc) + 1
Compact == (~R.modular) => R.max_modules = 1
MaxModDefault == (~\E i \in DOMAIN doc : doc[i].s = "set" /\ doc[i].key = "max_module") => R.max_modules = 1
(* legacy User_Prm_Data counts only if no new-style keyword appears anywhere; once one appeared, later legacy statements are ignored *)
Legacy == IF ~NewStyle THEN R.station.refs = <<>>
          ELSE \A i \in DOMAIN R.station.consts : R.station.consts[i].data # <<1, 2>>
(* a reference resolves to the latest definition that precedes it *)
Resolution == \A i \in DOMAIN doc : doc[i].s = "prmref" =>
                 LET ds == {j \in 1..(i - 1) : doc[j].s = "extprm"} IN
                 ds # {} /\ \E k \in DOMAIN R.station.refs : R.station.refs[k].def.name = doc[CHOOSE j \in ds : \A m \in ds : m <= j].name
=============================================================================
