------------------------------- MODULE RxPath -------------------------------
(* Receive path of the PHY helpers (src/phy/mod.rs `receive_telegram`, `receive_all_telegrams`) *)
(* over a byte buffer, using the normative decoder of Codec.                                    *)
(* Layer M: RecvOne(buf), RecvAll(buf) = what one call does to the buffer and which call-backs  *)
(* it makes.  Layer P (C16): clauses over a session: telegrams sent = telegrams delivered, in   *)
(* order, each once; is_last exactly when nothing is buffered behind; incomplete data is kept;  *)
(* after a discard the next telegram that arrives separately is delivered.                      *)
EXTENDS Codec, TLC

Drop(buf, n) == SubSeq(buf, n + 1, Len(buf))

(* one receive_telegram call: [cbs |-> call-backs <<[n, last]>>, buf |-> buffer afterwards] *)
RecvOne(buf) ==
  LET d == Decode(buf) IN
  CASE d.r = "more" -> [cbs |-> <<>>, buf |-> buf]
    [] d.r = "rej"  -> [cbs |-> <<>>, buf |-> <<>>]
    [] OTHER        -> [cbs |-> <<[n |-> d.n, last |-> d.n = Len(buf), t |-> WithPdu(d.t, buf)]>>, buf |-> Drop(buf, d.n)]

RECURSIVE RecvAllFrom(_, _)
RecvAllFrom(buf, acc) ==
  LET d == Decode(buf) IN
  CASE d.r = "more" -> [cbs |-> acc, buf |-> buf]
    [] d.r = "rej"  -> [cbs |-> acc, buf |-> <<>>]
    [] OTHER        -> LET cb == [n |-> d.n, last |-> d.n = Len(buf), t |-> WithPdu(d.t, buf)] IN
                       IF d.n = Len(buf) THEN [cbs |-> Append(acc, cb), buf |-> <<>>]
                       ELSE RecvAllFrom(Drop(buf, d.n), Append(acc, cb))
RecvAll(buf) == RecvAllFrom(buf, <<>>)

(* ------------------------------------------------------------------ session rule state *)
(* sent: frames (byte sequences) put on the wire in order, with the absolute stream offset of    *)
(* their first byte; arrived: number of stream bytes handed to the PHY so far; consumed: stream   *)
(* offset of the PHY buffer start; delivered: count of frames delivered; junk: TRUE after         *)
(* undecodable bytes were injected (until resynchronised)                                         *)
SessInit == [sent |-> <<>>, sentOff |-> <<>>, arrived |-> 0, head |-> 0, delivered |-> 0, streamLen |-> 0, dirty |-> FALSE]

R(clause, sig, rs, hits) == [clause |-> clause, sig |-> sig, rs |-> rs, hits |-> hits]
NoSig == [x |-> 0]
FirstBad(cs) == LET bad == SelectSeq(cs, LAMBDA c : ~c[2]) IN IF bad = <<>> THEN "ok" ELSE bad[1][1]

(* a valid frame is queued for sending *)
OnSend(rs, e) ==
  R("ok", NoSig, [rs EXCEPT !.sent = Append(@, e.b), !.sentOff = Append(@, rs.streamLen), !.streamLen = @ + Len(e.b)], <<>>)
(* undecodable bytes are queued (fault); the session is dirty until a discard resynchronises *)
OnJunk(rs, e) == R("ok", NoSig, [rs EXCEPT !.streamLen = @ + Len(e.b), !.dirty = TRUE], <<>>)
(* the next chunk of the stream reaches the PHY *)
OnArrive(rs, e) == R("ok", NoSig, [rs EXCEPT !.arrived = @ + e.n], <<>>)

(* a helper call: e.fn, e.pre (buffer bytes before), e.cbs (<<[last, t]>>), e.pending (bytes buffered afterwards).      *)
(* The length of a delivered telegram is the length of the frame that was sent (the wire length), not what the        *)
(* implementation reports: a telegram framed as SD2 with LE = 3 or 11 is longer than its canonical encoding.          *)
OnCall(rs, e) ==
  LET m == IF e.fn = "one" THEN RecvOne(e.pre) ELSE RecvAll(e.pre)
      clean == ~rs.dirty
      ncb == Len(e.cbs)
      (* frames expected next, judged only while the stream is clean *)
      nextIdx(i) == rs.delivered + i
      orderOk == \A i \in 1..ncb :
                    /\ nextIdx(i) <= Len(rs.sent)
                    /\ e.cbs[i].t = WithPdu(Parse(rs.sent[nextIdx(i)]), rs.sent[nextIdx(i)])
      \* wire length of the i-th delivered telegram: the frame that was sent (clean stream), else what the
      \* specification's own decoder reads at that place of the buffer
      SentLen(i) == IF clean /\ nextIdx(i) <= Len(rs.sent) THEN Len(rs.sent[nextIdx(i)])
                    ELSE IF i <= Len(m.cbs) THEN m.cbs[i].n ELSE 0
      consumedBytes == IF e.cbs = <<>> THEN 0 ELSE
                          LET RECURSIVE S(_) S(i) == IF i = 0 THEN 0 ELSE SentLen(i) + S(i - 1) IN S(ncb)
      (* is_last <=> no byte buffered behind that telegram at the time of the call-back *)
      lastOk == e.fn = "one" \/ \A i \in 1..ncb :
                   LET before == LET RECURSIVE S(_) S(j) == IF j = 0 THEN 0 ELSE SentLen(j) + S(j - 1) IN S(i)
                   IN e.cbs[i].last = (before = Len(e.pre))
      (* nothing of an incomplete telegram is dropped or duplicated: bytes buffered afterwards =   *)
      (* bytes before minus the delivered telegrams (clean stream)                                   *)
      keepOk == e.pending = Len(e.pre) - consumedBytes
      (* every complete frame that is at the buffer head must be delivered by receive_all; one by receive_one *)
      completeAvail == LET RECURSIVE C(_, _) C(i, off) ==
                          IF i > Len(rs.sent) THEN 0
                          ELSE IF off + Len(rs.sent[i]) <= Len(e.pre) THEN 1 + C(i + 1, off + Len(rs.sent[i])) ELSE 0
                       IN C(rs.delivered + 1, 0)
      liveOk == IF e.fn = "one" THEN ncb = (IF completeAvail >= 1 THEN 1 ELSE 0) ELSE ncb = completeAvail
      cs == IF clean
            THEN << <<"C16.order", orderOk>>, <<"C16.last", lastOk>>, <<"C16.keep", keepOk>>, <<"C16.deliver", liveOk>> >>
            ELSE << <<"C16.last", lastOk>> >>
      mOk == /\ Len(e.cbs) = Len(m.cbs) /\ e.pending = Len(m.buf)
             /\ \A i \in 1..Len(m.cbs) : e.cbs[i].t = m.cbs[i].t /\ (e.fn = "all" => e.cbs[i].last = m.cbs[i].last)
      (* a discard (dirty stream, buffer emptied) resynchronises: frames sent from now on are expected again *)
      resync == rs.dirty /\ e.pending = 0
      rs1 == [rs EXCEPT !.delivered = IF clean THEN @ + ncb ELSE @]
      rs2 == IF resync THEN [rs1 EXCEPT !.dirty = FALSE, !.delivered = Len(rs.sent)] ELSE rs1
  IN [clause |-> FirstBad(cs), sig |-> [fn |-> e.fn], rs |-> rs2,
      hits |-> (IF clean THEN <<"C16.call." \o e.fn>> ELSE <<"C16.dirty">>) \o (IF ncb > 0 THEN <<"C16.order">> ELSE <<>>)
               \o (IF resync THEN <<"C16.resync">> ELSE <<>>),
      m |-> mOk]

(* end of a session: everything sent was delivered *)
OnEnd(rs, e) ==
  R(IF ~rs.dirty /\ rs.delivered # Len(rs.sent) THEN "C16.order" ELSE "ok", [fn |-> "end"], rs, <<"C16.end">>)

AllClauses == {"C16.order", "C16.last", "C16.keep", "C16.deliver", "C16.call.one", "C16.call.all", "C16.dirty", "C16.resync", "C16.end", "C16.total"}
=============================================================================
