SPECIFICATION Spec
CONSTANTS FixF6 = TRUE FixF15 = TRUE Retry = 1 NP = 3 FaultBudget = 2 UserBudget = 1 Nin0 = {3} AllowGc = FALSE
INVARIANTS NoBad TypeOK
PROPERTY Recovers
CHECK_DEADLOCK FALSE
