SPECIFICATION Spec
CONSTANTS FixF6 = FALSE FixF15 = TRUE Retry = 1 NP = 2 FaultBudget = 2 UserBudget = 1 Nin0 = {2} AllowGc = FALSE
INVARIANTS NoBad TypeOK
PROPERTY Recovers
CHECK_DEADLOCK FALSE
