------------------------------- MODULE TraceDp -------------------------------
(* Trace specification for the DP driver: event logs of the real FdlActiveStation + DpMaster    *)
(* against reference slaves are validated against the rule monitor DpRules.                      *)
EXTENDS DpRules, Json, IOUtils

Rec == ndJsonDeserialize(IOEnv.TRACE)

VARIABLES l, rs, bad, cov, dead, deadc, runs
vars == <<l, rs, bad, cov, dead, deadc, runs>>
NoCfg == [none |-> TRUE]

TInit == l = 1 /\ rs = NoCfg /\ bad = <<>> /\ cov = [c \in AllClauses |-> 0] /\ dead = TRUE /\ deadc = {} /\ runs = 0

TNext ==
  /\ l <= Len(Rec)
  /\ l' = l + 1
  /\ LET e == Rec[l] IN
     IF e.ev = "Cfg" THEN rs' = RuleInit(e) /\ dead' = FALSE /\ deadc' = {} /\ runs' = runs + 1 /\ UNCHANGED <<bad, cov>>
     ELSE IF e.ev = "Reset" THEN dead' = TRUE /\ UNCHANGED <<rs, bad, cov, runs, deadc>>
     ELSE IF dead /\ e.ev # "Hang" THEN UNCHANGED <<rs, bad, cov, dead, deadc, runs>>
     ELSE LET r == IF e.ev = "Hang" THEN R("C05.hang", NoSig, rs, <<>>) ELSE RuleStep(rs, e) IN
          /\ rs' = r.rs
          /\ cov' = [c \in AllClauses |-> cov[c] + Cardinality({i \in DOMAIN r.hits : r.hits[i] = c})]
          /\ runs' = runs
          (* every DP clause is a fact about the request/reply/event bookkeeping, which advances whether or   *)
          (* not a clause failed: the run is judged further and each clause is reported once per run; only a *)
          (* panic or hang ends the run                                                                       *)
          /\ LET new == SelectSeq(r.all, LAMBDA c : c \notin deadc) IN
             /\ bad' = bad \o [i \in 1..Len(new) |-> [l |-> l, clause |-> new[i], sig |-> r.sig]]
             /\ deadc' = deadc \cup {r.all[i] : i \in DOMAIN r.all}
             /\ dead' = (\E i \in DOMAIN r.all : r.all[i] \in {"C05.panic", "C05.hang"})

TSpec == TInit /\ [][TNext]_vars

Done == l = Len(Rec) + 1 =>
          PrintT(<<"RESULT", ToJson([n |-> Len(Rec), bad |-> bad, cov |-> cov, conf |-> [n |-> 0, ok |-> 0], drift |-> <<>>, runs |-> runs])>>)
Complete == TLCGet("stats").diameter - 1 = Len(Rec)
=============================================================================
