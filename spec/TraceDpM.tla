------------------------------ MODULE TraceDpM ------------------------------
(* Conformance of the real DpMaster with the operators of Dp.tla: every recorded call-back      *)
(* (transmit_telegram, receive_reply, handle_timeout) with the master's state before and after  *)
(* (hook views) must be exactly what the operator computes from the state before.  A mismatch   *)
(* is reported as clause "M.<call>" (model drift - the model or the code changed), never as a   *)
(* property violation; the chain clause "M.chain" checks that nothing but the documented API    *)
(* (request_diagnostics, take_last_events) changes the state between calls.                     *)
EXTENDS Dp, Json, IOUtils, TLC, Sequences, Integers
Rec == ndJsonDeserialize(IOEnv.TRACE)
VARIABLES l, cfgv, prev, bad, cov
tvars == <<l, cfgv, prev, bad, cov>>

Cf(c) == [i \in 1..Len(c.per) |-> [prm |-> c.per[i].prm, cfg |-> c.per[i].cfg, nin0 |-> c.per[i].nin0, retry |-> c.retry]]
PS(v) == [st |-> v.st, rc |-> v.rc, fcb |-> v.fcb, dn |-> v.dn, dif |-> v.dif]
MS(v) == [per |-> [i \in 1..Len(v.per) |-> PS(v.per[i])], cyc |-> v.cyc, ev |-> [cc |-> v.ev.cc, p |-> v.ev.p, e |-> v.ev.e]]
Core(m) == [per |-> [i \in 1..Len(m.per) |-> [st |-> m.per[i].st, rc |-> m.per[i].rc, fcb |-> m.per[i].fcb, dif |-> m.per[i].dif]], cyc |-> m.cyc]

Check(e) ==
  LET pre == MS(e.pre)  post == MS(e.post)  cf == Cf(cfgv) IN
  CASE e.ev = "MTx" ->
         LET opts == {MTx(cf, pre, g, e.hp) : g \in BOOLEAN}
         IN IF \E o \in opts : o.m = post /\ (o.tx.svc # "none") = e.sent THEN "ok" ELSE "M.transmit"
    [] e.ev = "MRx" ->
         IF e.r.k = "token" THEN "M.reply.token"
         ELSE LET o == MRx(cf, pre, e.r) IN IF ~o.panic /\ o.m = post THEN "ok" ELSE "M.reply"
    [] e.ev = "MTo" -> IF pre = post THEN "ok" ELSE "M.timeout"
    [] OTHER -> "ok"

Init == l = 1 /\ cfgv = [retry |-> 0, per |-> <<>>] /\ prev = [per |-> <<>>, cyc |-> 0] /\ bad = <<>> /\ cov = [x \in {} |-> 0]
Bump(c, k) == IF k \in DOMAIN c THEN [c EXCEPT ![k] = @ + 1] ELSE c @@ (k :> 1)
Next ==
  /\ l <= Len(Rec)
  /\ LET e == Rec[l] IN
     /\ l' = l + 1
     /\ IF e.ev = "Cfg" THEN /\ cfgv' = e /\ prev' = Core(FreshM(Len(e.per))) /\ UNCHANGED <<bad, cov>>
        ELSE IF e.ev \in {"MTx", "MRx", "MTo"} THEN
             LET c == Check(e)
                 chain == IF Core(MS(e.pre)) = prev THEN "ok" ELSE "M.chain"
                 key == IF e.ev = "MRx" THEN "MRx." \o e.pre.per[e.pre.cyc + 1].st \o "." \o e.r.k ELSE IF e.ev = "MTx" THEN "MTx." \o (IF e.sent THEN "sent" ELSE "none") ELSE "MTo"
             IN /\ cfgv' = cfgv /\ prev' = Core(MS(e.post))
                /\ bad' = bad \o (IF c # "ok" THEN <<[l |-> l, clause |-> c, sig |-> [call |-> e.ev]]>> ELSE <<>>)
                               \o (IF chain # "ok" THEN <<[l |-> l, clause |-> chain, sig |-> [call |-> e.ev]]>> ELSE <<>>)
                /\ cov' = Bump(cov, key)
        ELSE UNCHANGED <<cfgv, prev, bad, cov>>
Spec == Init /\ [][Next]_tvars
Done == l > Len(Rec) => PrintT(<<"RESULT", ToJson([n |-> Len(Rec), bad |-> bad, cov |-> cov])>>)
Complete == TLCGet("stats").diameter - 1 = Len(Rec)
=============================================================================
