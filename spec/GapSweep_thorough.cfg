SPECIFICATION Spec
CONSTANTS FixF2 = TRUE FixF3 = TRUE FixF14 = TRUE
  HsaSet <- AllHsa
INVARIANT RangeOk
INVARIANT SweepOk
CHECK_DEADLOCK FALSE
