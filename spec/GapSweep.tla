------------------------------ MODULE GapSweep ------------------------------
(* The GAP sweep (FdlStation!NextGapPoll = next_gap_poll in src/fdl/active.rs) for ALL            *)
(* (TS, NS, HSA) triples and ALL cursor positions, including stale cursors outside the GAP        *)
(* (NS changed during a sweep): the next target is strictly inside (TS, NS) cyclically or the     *)
(* sweep ends; a sweep started at TS visits every GAP address exactly once, in order (C12.range,  *)
(* C12 cadence on the model).                                                                     *)
EXTENDS Naturals, Integers, FiniteSets, Sequences, TLC
CONSTANTS FixF2, FixF3, FixF14, HsaSet
M == INSTANCE FdlStation

VARIABLES ts, ns, hsa, cur
vars == <<ts, ns, hsa, cur>>
Init == /\ hsa \in HsaSet /\ ts \in 0..(hsa - 1) /\ ns \in 0..(hsa - 1) /\ cur \in 0..(hsa - 1)
Next == UNCHANGED vars
Spec == Init /\ [][Next]_vars

Me == [ts |-> ts, hsa |-> hsa, g |-> 1, napps |-> 0]
St(n) == [M!Fresh(Me) EXCEPT !.ring.ns = n]
InGap(a, n) == a # ts /\ a < hsa /\ (IF n > ts THEN a > ts /\ a < n ELSE IF n < ts THEN (a > ts \/ a < n) ELSE TRUE)
Gap(n) == {a \in 0..(hsa - 1) : InGap(a, n)}

(* from any cursor: next target inside the GAP, or waiting *)
RangeOk == LET r == M!NextGapPoll(Me, St(ns), cur) IN r.gw \/ InGap(r.gn, ns)

(* a full sweep from TS: the sequence of targets *)
RECURSIVE Sweep(_, _, _)
Sweep(c, acc, fuel) ==
  LET r == M!NextGapPoll(Me, St(ns), c) IN
  IF r.gw \/ fuel = 0 THEN acc ELSE Sweep(r.gn, Append(acc, r.gn), fuel - 1)
SweepOk == cur = ts =>
             LET s == Sweep(ts, <<>>, 130) IN
             /\ Len(s) = Cardinality(Gap(ns))
             /\ {s[i] : i \in DOMAIN s} = Gap(ns)
             /\ \A i \in 1..(Len(s) - 1) : s[i + 1] = (IF s[i] = hsa - 1 THEN 0 ELSE s[i] + 1)
AllHsa == 1..126
=============================================================================
