SPECIFICATION TSpec
INVARIANT Done
POSTCONDITION Complete
CHECK_DEADLOCK FALSE
