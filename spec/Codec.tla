------------------------------- MODULE Codec -------------------------------
(* PROFIBUS FDL frame format as operators over byte sequences (1-based sequences of 0..255).  *)
(* Layer P: `Enc*`, `ValidFrame`, `Parse`, `Announced`, `Fc*` are the normative format the     *)
(* properties C09/C10 speak about; the clause operators `C09_*`, `C10_*` judge recorded calls  *)
(* of the real encoder/decoder.  Layer M: `Decode` is the decoder as the code is meant to      *)
(* behave, branch by branch (src/fdl/telegram.rs `Telegram::deserialize`,                      *)
(* `DataTelegram::deserialize`); conformance of a recorded call is `r = Decode(inp)`.          *)
EXTENDS Naturals, Integers, Sequences, FiniteSets, SequencesExt

SD1 == 16
SD2 == 104
SD3 == 162
SD4 == 220
ED  == 22
SC  == 229

Byte == 0..255
Inf == 100000

(* ------------------------------------------------------------------ function codes *)
ReqTypes == {0, 3, 4, 5, 6, 7, 9, 12, 13, 14, 15, 128}
RespStatuses == {0, 1, 2, 3, 8, 9, 10, 12, 13}
ExpectsReplyTypes == {3, 5, 7, 9, 12, 13, 14, 15}

FcReq(fcv, fcb, rt) == [k |-> "req", fcv |-> fcv, fcb |-> fcb, rt |-> rt]
FcResp(state, status) == [k |-> "resp", state |-> state, status |-> status]
FcInvalid == [k |-> "invalid"]

AllFc == {FcReq(v, b, rt) : v \in {0, 1}, b \in {0, 1}, rt \in ReqTypes}
         \cup {FcResp(s, st) : s \in 0..3, st \in RespStatuses}

FcToByte(fc) ==
  IF fc.k = "req" THEN 64 + fc.rt + 16 * fc.fcv + 32 * fc.fcb
  ELSE 16 * fc.state + fc.status

(* bit 6 set: request, type = bits 0..3 and bit 7; otherwise response, bit 7 ignored *)
FcFromByte(b) ==
  IF (b \div 64) % 2 = 1
  THEN LET rt == (b % 16) + 128 * (b \div 128) IN
       IF rt \in ReqTypes THEN FcReq((b \div 16) % 2, (b \div 32) % 2, rt) ELSE FcInvalid
  ELSE LET st == b % 16 IN
       IF st \in RespStatuses THEN FcResp((b \div 16) % 4, st) ELSE FcInvalid

(* ------------------------------------------------------------------ telegrams *)
Token(da, sa) == [k |-> "token", da |-> da, sa |-> sa]
ShortConf == [k |-> "sc"]
Data(da, sa, dsap, ssap, fc, pdu) ==
  [k |-> "data", da |-> da, sa |-> sa, dsap |-> dsap, ssap |-> ssap, fc |-> fc, pdu |-> pdu]

Sum(s) == FoldLeft(LAMBDA a, b : (a + b) % 256, 0, s)
NSap(t) == (IF t.dsap # -1 THEN 1 ELSE 0) + (IF t.ssap # -1 THEN 1 ELSE 0)
LE(t) == Len(t.pdu) + NSap(t) + 3

EncBody(t) ==
  <<t.da + (IF t.dsap # -1 THEN 128 ELSE 0), t.sa + (IF t.ssap # -1 THEN 128 ELSE 0), FcToByte(t.fc)>>
  \o (IF t.dsap # -1 THEN <<t.dsap>> ELSE <<>>)
  \o (IF t.ssap # -1 THEN <<t.ssap>> ELSE <<>>)
  \o t.pdu

(* SD selection: LE = 3 -> SD1, LE = 11 -> SD3, otherwise SD2 with doubled length byte *)
EncData(t) ==
  LET body == EncBody(t)
      tail == <<Sum(body), ED>>
  IN CASE LE(t) = 3  -> <<SD1>> \o body \o tail
       [] LE(t) = 11 -> <<SD3>> \o body \o tail
       [] OTHER      -> <<SD2, LE(t), LE(t), SD2>> \o body \o tail

Enc(t) == CASE t.k = "token" -> <<SD4, t.da, t.sa>>
            [] t.k = "sc"    -> <<SC>>
            [] OTHER         -> EncData(t)

FrameLen(t) == CASE t.k = "token" -> 3
                 [] t.k = "sc"    -> 1
                 [] OTHER -> IF LE(t) \in {3, 11} THEN LE(t) + 3 ELSE LE(t) + 6

(* ------------------------------------------------------------------ normative validity of an exact frame *)
HdrAt(f) == IF f[1] = SD2 THEN 5 ELSE 2            \* index of the DA byte
LEof(f)  == CASE f[1] = SD1 -> 3 [] f[1] = SD3 -> 11 [] OTHER -> f[2]
NSapF(f) == (IF f[HdrAt(f)] >= 128 THEN 1 ELSE 0) + (IF f[HdrAt(f) + 1] >= 128 THEN 1 ELSE 0)

ValidData(f) ==
  /\ Len(f) >= 6
  /\ f[1] \in {SD1, SD2, SD3}
  /\ f[1] = SD2 => (f[2] = f[3] /\ f[2] >= 3 /\ f[4] = SD2)
  /\ Len(f) = (IF f[1] = SD2 THEN f[2] + 6 ELSE LEof(f) + 3)
  /\ f[Len(f)] = ED
  /\ f[Len(f) - 1] = Sum(SubSeq(f, HdrAt(f), Len(f) - 2))
  /\ FcFromByte(f[HdrAt(f) + 2]) # FcInvalid
  /\ NSapF(f) <= LEof(f) - 3

ValidFrame(f) ==
  /\ Len(f) >= 1
  /\ CASE f[1] = SC  -> Len(f) = 1
       [] f[1] = SD4 -> Len(f) = 3
       [] OTHER      -> ValidData(f)

(* The telegram a valid frame denotes; the payload is given by position (0-based offset) *)
Parse(f) ==
  CASE f[1] = SC  -> ShortConf
    [] f[1] = SD4 -> Token(f[2], f[3])
    [] OTHER ->
       LET h == HdrAt(f)
           hasD == f[h] >= 128
           hasS == f[h + 1] >= 128
           ns == NSapF(f)
       IN [k |-> "data", da |-> f[h] % 128, sa |-> f[h + 1] % 128,
           dsap |-> IF hasD THEN f[h + 3] ELSE -1,
           ssap |-> IF hasS THEN f[h + 3 + (IF hasD THEN 1 ELSE 0)] ELSE -1,
           fc |-> FcFromByte(f[h + 2]),
           off |-> h + 2 + ns, len |-> LEof(f) - 3 - ns]

(* a decoded data telegram with the payload written out *)
WithPdu(t, inp) ==
  IF t.k # "data" THEN t
  ELSE Data(t.da, t.sa, t.dsap, t.ssap, t.fc, SubSeq(inp, t.off + 1, t.off + t.len))

(* length of the frame announced by the bytes seen so far *)
Announced(inp) ==
  IF Len(inp) = 0 THEN Inf
  ELSE CASE inp[1] = SC  -> 1
         [] inp[1] = SD4 -> 3
         [] inp[1] = SD1 -> 6
         [] inp[1] = SD3 -> 14
         [] inp[1] = SD2 -> IF Len(inp) < 2 THEN Inf ELSE inp[2] + 6
         [] OTHER        -> 0

(* ------------------------------------------------------------------ layer M: the decoder *)
More == [r |-> "more"]
Rej  == [r |-> "rej"]
Ok(n, t) == [r |-> "ok", n |-> n, t |-> t]

DecodeData(b) ==
  IF Len(b) < 6 THEN More
  ELSE IF b[1] = SD2 /\ (b[2] # b[3] \/ b[2] < 3 \/ b[4] # SD2) THEN Rej
  ELSE LET total == IF b[1] = SD2 THEN b[2] + 6 ELSE LEof(b) + 3 IN
       IF Len(b) < total THEN More
       ELSE LET f == SubSeq(b, 1, total) IN
            IF ValidData(f) THEN Ok(total, Parse(f)) ELSE Rej

Decode(b) ==
  IF Len(b) = 0 THEN More
  ELSE CASE b[1] = SC  -> Ok(1, ShortConf)
         [] b[1] = SD4 -> IF Len(b) < 3 THEN More ELSE Ok(3, Token(b[2], b[3]))
         [] b[1] \in {SD1, SD2, SD3} -> DecodeData(b)
         [] OTHER -> Rej

(* ------------------------------------------------------------------ layer P: clauses over recorded calls *)
(* r is a recorded decoder verdict for input inp *)
C10_total(r) == r.r \in {"more", "rej", "ok"}
C10_inside(inp, r) ==
  r.r = "ok" => /\ r.n >= 1 /\ r.n <= Len(inp)
                /\ r.t.k = "data" => (r.t.off >= 0 /\ r.t.len >= 0 /\ r.t.off + r.t.len <= r.n)
C10_needmore(inp, r) == r.r = "more" => Len(inp) < Announced(inp)
C10_accept(inp, r) ==
  r.r = "ok" => LET f == SubSeq(inp, 1, r.n) IN ValidFrame(f) /\ r.t = Parse(f)
(* verdict on a prefix (rp) against the verdict on the extension (r) *)
C10_prefix(rp, r) == rp.r \in {"ok", "rej"} => r = rp

DecClause(inp, r) ==
  CASE ~C10_total(r)         -> "C10.total"
    [] ~C10_inside(inp, r)   -> "C10.inside"
    [] ~C10_needmore(inp, r) -> "C10.needmore"
    [] ~C10_accept(inp, r)   -> "C10.accept"
    [] OTHER                 -> "ok"

(* single-byte substitution at 0-based position pos of a valid frame of telegram kind k0: the   *)
(* result is never accepted, except the two re-framings of the first byte that no decoder can   *)
(* reject (DESIGN 5.6)                                                                           *)
SubstExempt(pos, val) == pos = 0 /\ val \in {SD4, SC}
C10_subst(pos, val, r) == r.r = "ok" => SubstExempt(pos, val)

(* C09: an encoder call for telegram t that wrote `bytes` and reported n; dec = decoder verdict *)
C09_format(t, bytes) == bytes = Enc(t)
C09_len(t, bytes, n) == n = Len(bytes) /\ n = FrameLen(t)
C09_inverse(t, bytes, dec) ==
  /\ dec.r = "ok" /\ dec.n = Len(bytes)
  /\ WithPdu(dec.t, bytes) = t
EncClause(t, bytes, n, dec, decx) ==
  CASE ~C09_format(t, bytes)        -> "C09.format"
    [] ~C09_len(t, bytes, n)        -> "C09.len"
    [] ~C09_inverse(t, bytes, dec)  -> "C09.inverse"
    [] decx # dec                   -> "C09.exact"      \* trailing bytes must not change the verdict
    [] OTHER                        -> "ok"

(* function code records *)
C09_fcvalue(fc, b, back) == b = FcToByte(fc) /\ back = fc
C09_fcbyte(r, r2) == r.k # "invalid" => r2 = r
=============================================================================
