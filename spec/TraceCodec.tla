----------------------------- MODULE TraceCodec -----------------------------
(* Trace specification for C09 / C10: recorded calls of the real encoder and decoder           *)
(* (harness `pbv codec`) are judged by the clauses of Codec (layer P) and compared with the     *)
(* model decoder `Decode` (layer M, conformance only).                                          *)
EXTENDS Codec, Json, IOUtils, TLC

Rec == ndJsonDeserialize(IOEnv.TRACE)

Clauses == {"C09.format", "C09.len", "C09.inverse", "C09.exact", "C09.fc", "C09.total",
            "C10.total", "C10.inside", "C10.needmore", "C10.accept", "C10.prefix", "C10.subst",
            "C10.subst.exempt"}

VARIABLES l, rs, bad, cov, conf, dead
vars == <<l, rs, bad, cov, conf, dead>>

NoVerdict == [r |-> "none"]
RuleInit == [chain |-> <<>>, prevk |-> -1, prev |-> NoVerdict, chainvalid |-> FALSE]

Res(c, r, hits, sig, m) == [clause |-> c, rs |-> r, hits |-> hits, sig |-> sig, m |-> m]
NoSig == [x |-> 0]

RuleStep(r, e) ==
  CASE e.ev = "Enc" ->
         LET c == EncClause(e.t, e.bytes, e.n, e.dec, e.decx) IN
         Res(c, r, <<"C09.format", "C09.len", "C09.inverse", "C09.exact">>, [kind |-> e.t.k],
             <<e.dec = Decode(e.bytes)>>)
    [] e.ev = "FcV" ->
         Res(IF C09_fcvalue(e.fc, e.b, e.back) THEN "ok" ELSE "C09.fc", r, <<"C09.fc">>, [b |-> e.b], <<>>)
    [] e.ev = "FcB" ->
         Res(IF C09_fcbyte(e.r, e.r2) THEN "ok" ELSE "C09.fc", r, IF e.r.k # "invalid" THEN <<"C09.fc">> ELSE <<>>,
             [b |-> e.b], <<e.r = FcFromByte(e.b)>>)
    [] e.ev = "Chain" ->
         Res("ok", [chain |-> e.bytes, prevk |-> -1, prev |-> NoVerdict,
                    chainvalid |-> Len(e.bytes) > 0 /\ ValidFrame(e.bytes) /\ e.bytes[1] # SD4], <<>>, NoSig, <<>>)
    [] e.ev = "Dec" ->
         LET inp == SubSeq(r.chain, 1, e.k)
             c1 == DecClause(inp, e.r)
             pfx == r.prevk # -1 /\ r.prevk < e.k /\ r.prev.r \in {"ok", "rej"}
             c == IF c1 # "ok" THEN c1 ELSE IF pfx /\ ~C10_prefix(r.prev, e.r) THEN "C10.prefix" ELSE "ok"
             hits == <<"C10.total">>
                     \o (IF e.r.r = "ok" THEN <<"C10.inside", "C10.accept">> ELSE <<>>)
                     \o (IF e.r.r = "more" THEN <<"C10.needmore">> ELSE <<>>)
                     \o (IF pfx THEN <<"C10.prefix">> ELSE <<>>)
         IN Res(c, [r EXCEPT !.prevk = e.k, !.prev = e.r], hits,
                [verdict |-> e.r.r, first |-> IF Len(inp) > 0 THEN inp[1] ELSE -1], <<e.r = Decode(inp)>>)
    [] e.ev = "Sub" ->
         LET inp == ReplaceAt(r.chain, e.pos + 1, e.val)
             c1 == DecClause(inp, e.r)
             judged == r.chainvalid /\ e.val # r.chain[e.pos + 1]
             c == IF c1 # "ok" THEN c1 ELSE IF judged /\ ~C10_subst(e.pos, e.val, e.r) THEN "C10.subst" ELSE "ok"
             hits == <<"C10.total">>
                     \o (IF judged THEN <<"C10.subst">> ELSE <<>>)
                     \o (IF judged /\ e.r.r = "ok" /\ SubstExempt(e.pos, e.val) THEN <<"C10.subst.exempt">> ELSE <<>>)
         IN Res(c, r, hits, [pos |-> e.pos, first |-> r.chain[1]], <<e.r = Decode(inp)>>)
    [] e.ev = "Panic" ->
         Res(IF e.during = "enc" THEN "C09.total" ELSE "C10.total", r, <<>>, [loc |-> e.loc], <<>>)
    [] OTHER -> Res("ok", r, <<>>, NoSig, <<>>)

TInit == l = 1 /\ rs = RuleInit /\ bad = <<>> /\ cov = [c \in Clauses |-> 0] /\ conf = [n |-> 0, ok |-> 0] /\ dead = FALSE

TNext ==
  /\ l <= Len(Rec)
  /\ l' = l + 1
  /\ LET e == Rec[l] IN
     IF e.ev = "Reset" THEN rs' = RuleInit /\ dead' = FALSE /\ UNCHANGED <<bad, cov, conf>>
     ELSE IF dead THEN UNCHANGED <<rs, bad, cov, conf, dead>>
     ELSE LET r == RuleStep(rs, e) IN
          /\ rs' = r.rs
          /\ cov' = [c \in Clauses |-> cov[c] + Cardinality({i \in DOMAIN r.hits : r.hits[i] = c})]
          /\ conf' = [n |-> conf.n + Len(r.m), ok |-> conf.ok + Cardinality({i \in DOMAIN r.m : r.m[i]})]
          /\ IF r.clause = "ok" THEN UNCHANGED <<bad, dead>>
             ELSE /\ bad' = (IF Len(bad) < 200 THEN Append(bad, [l |-> l, clause |-> r.clause, sig |-> r.sig]) ELSE bad)
                  /\ dead' = FALSE      \* calls are independent: keep judging

TSpec == TInit /\ [][TNext]_vars

Done == l = Len(Rec) + 1 =>
          PrintT(<<"RESULT", ToJson([n |-> Len(Rec), bad |-> bad, cov |-> cov, conf |-> conf])>>)
Complete == TLCGet("stats").diameter - 1 = Len(Rec)
=============================================================================
