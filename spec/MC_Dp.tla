------------------------------- MODULE MC_Dp -------------------------------
(* The DP master operators of Dp.tla driven by an abstract FDL (the master is asked to          *)
(* transmit whenever nothing is outstanding; a request is resolved by a reply or a time-out)    *)
(* against the reference slave (the same machine as harness/src/dp.rs `Slave`) with a budget    *)
(* of faults: lost requests, lost replies, substituted replies, slave power cycles, slave-side  *)
(* diagnosis requests (DH), user request_diagnostics() calls.                                   *)
(* Safety: no unreachable!() / assertion, the C08 frame-count-bit discipline, the C03 bring-up  *)
(* order and the C14 slot order hold in every reachable state.  Liveness (C07): once the fault  *)
(* budget is spent every powered slave is brought (back) to data exchange and stays there.      *)
EXTENDS Dp, TLC

CONSTANTS Retry, NP, FaultBudget, UserBudget, Nin0, AllowGc
ASSUME NP \in Nat /\ FaultBudget \in Nat /\ UserBudget \in Nat

Per == 1..NP
Cf == [i \in Per |-> [prm |-> TRUE, cfg |-> TRUE, nin0 |-> i \in Nin0, retry |-> Retry]]

VARIABLES m, out, sl, faults, users, bad,
          mon      \* per peripheral: [last (svc, fcb of the last request), ans, tries, live, first, stage]
vars == <<m, out, sl, faults, users, bad, mon>>

NoR == [Sc EXCEPT !.k = "none"]
FreshS == [st |-> "WPrm", sf |-> "N", last |-> NoR, pw |-> TRUE, dp |-> FALSE]
FreshMon == [svc |-> "none", fcb |-> "First", ans |-> "none", tries |-> 0, live |-> FALSE, first |-> TRUE, stage |-> 0]

Init == /\ m = FreshM(NP) /\ out = NoTx /\ sl = [i \in Per |-> FreshS] /\ faults = 0 /\ users = 0 /\ bad = "none"
        /\ mon = [i \in Per |-> FreshMon]

(* ---- reference slave *)
SlaveExec(i, sv, q) ==
  LET bit == IF FcbBit(q.fcb) THEN "T" ELSE "F"
      retx == Fcv(q.fcb) /\ sv.sf = bit
      sf1 == IF Fcv(q.fcb) THEN bit ELSE IF FcbBit(q.fcb) THEN "T" ELSE sv.sf
      s1 == [sv EXCEPT !.sf = sf1]
      ex == CASE q.svc = "diag" -> [s |-> [s1 EXCEPT !.dp = FALSE], r |-> DiagR(FALSE, FALSE, sv.st = "WPrm", sv.st # "DX")]
              [] q.svc = "prm"  -> [s |-> [s1 EXCEPT !.st = IF @ = "WPrm" THEN "WCfg" ELSE @], r |-> Sc]
              [] q.svc = "cfg"  -> IF sv.st = "WPrm" THEN [s |-> s1, r |-> DataR("rs", FALSE)]
                                   ELSE [s |-> [s1 EXCEPT !.st = "DX"], r |-> Sc]
              [] OTHER          -> IF sv.st = "DX"
                                   THEN [s |-> s1, r |-> IF Cf[i].nin0 THEN Sc ELSE DataR(IF sv.dp THEN "dh" ELSE "dl", TRUE)]
                                   ELSE [s |-> s1, r |-> DataR("rs", FALSE)]
  IN IF retx THEN [s |-> sv, r |-> sv.last] ELSE [s |-> [ex.s EXCEPT !.last = ex.r], r |-> ex.r]

Positive(svc, r) == \/ (svc = "diag" /\ r.k = "data" /\ r.diagok)
                    \/ (svc \in {"prm", "cfg"} /\ r.k = "sc")
                    \/ (svc = "dx" /\ (r.k = "sc" \/ (r.k = "data" /\ r.dxsaps /\ r.status \in {"ok", "dl", "dh"})))

(* ---- monitors (the rules of DpRules, evaluated on the model) *)
MonEv(mo, ev) ==
  [i \in Per |-> IF ev.p = i THEN [mo[i] EXCEPT !.live = IF ev.e = "Online" THEN TRUE ELSE IF ev.e \in {"Offline", "ParameterError", "ConfigError"} THEN FALSE ELSE @,
                                               !.first = IF ev.e = "Offline" THEN TRUE ELSE @,
                                               !.stage = IF ev.e \in {"Offline", "ParameterError", "ConfigError"} THEN 0 ELSE @]
                 ELSE mo[i]]
MonReq(mo, q) ==
  LET x == mo[q.p]
      same == x.svc # "none" /\ x.fcb = q.fcb
      retrans == ~x.first /\ same /\ x.svc = q.svc /\ x.ans = "none"
      tries == IF retrans THEN (IF x.tries > Retry + 1 THEN x.tries ELSE x.tries + 1) ELSE 1
      viol == IF x.first /\ q.fcb # "First" THEN "C08.first"
              ELSE IF ~x.live /\ q.svc # "diag" THEN "C08.probe"
              ELSE IF ~x.first /\ same /\ ~(x.svc = q.svc /\ x.ans # "pos") THEN "C08.same"
              ELSE IF ~x.first /\ x.ans = "pos" /\ (q.fcb = "First" \/ same) THEN "C08.toggle"
              ELSE IF x.live /\ tries > Retry + 1 THEN "C08.limit"
              ELSE IF q.svc = "cfg" /\ x.stage < 1 THEN "C03.order"
              ELSE IF q.svc = "dx" /\ x.stage < 3 THEN "C03.order"
              ELSE "none"
  IN [mo |-> [mo EXCEPT ![q.p] = [@ EXCEPT !.svc = q.svc, !.fcb = q.fcb, !.ans = "none", !.tries = tries, !.first = FALSE]], viol |-> viol]
MonAns(mo, q, r) ==
  LET pos == Positive(q.svc, r)
      x == mo[q.p]
      stage == IF ~pos THEN x.stage
               ELSE CASE q.svc = "prm" -> 1
                      [] q.svc = "cfg" -> IF x.stage >= 1 THEN 2 ELSE x.stage
                      [] q.svc = "diag" -> IF r.pr THEN 0 ELSE IF x.stage = 2 /\ ~r.nr /\ ~r.pf /\ ~r.cf THEN 3 ELSE x.stage
                      [] OTHER -> x.stage
      stage2 == IF q.svc = "dx" /\ r.k = "data" /\ r.status = "rs" /\ r.dxsaps /\ x.stage = 3 THEN 2 ELSE stage
  IN [mo EXCEPT ![q.p] = [@ EXCEPT !.ans = IF pos THEN "pos" ELSE "neg", !.stage = stage2]]

(* ---- actions *)
Transmit ==
  /\ out = NoTx /\ bad = "none"
  /\ \E gc \in (IF AllowGc THEN BOOLEAN ELSE {FALSE}) :
       LET r == MTx(Cf, m, gc, FALSE)
           mo1 == MonEv(mon, r.m.ev)
           offv == r.m.ev.e = "Offline" /\ mon[r.m.ev.p].ans = "pos"     \* C08.offline: never right after an accepted reply
       IN /\ m' = r.m
          /\ IF offv THEN /\ out' = NoTx /\ mon' = mo1 /\ bad' = "C08.offline"
             ELSE IF r.tx.svc \in {"none", "gc"} THEN /\ out' = NoTx /\ mon' = mo1 /\ bad' = (IF r.tx.svc = "fuel" THEN "fuel" ELSE "none")
             ELSE IF r.tx.svc = "fuel" THEN /\ out' = NoTx /\ mon' = mo1 /\ bad' = "fuel"
             ELSE LET q == r.tx  x == MonReq(mo1, q)
                      ord == m.cyc # -1 /\ q.p < m.cyc + 1        \* slot order inside a cycle (C14)
                  IN /\ out' = q /\ mon' = x.mo /\ bad' = IF x.viol # "none" THEN x.viol ELSE IF ord THEN "C14.cycle" ELSE "none"
  /\ UNCHANGED <<sl, faults, users>>

Receive(r) ==
  LET x == MRx(Cf, m, r) IN
  /\ m' = x.m /\ bad' = IF x.panic THEN "panic" ELSE "none"
  /\ mon' = MonEv(MonAns(mon, out, r), x.m.ev)
  /\ out' = NoTx

Timeout == /\ out' = NoTx /\ UNCHANGED <<m, mon, bad>>

Fault == faults < FaultBudget /\ faults' = faults + 1

Substitutes == {Sc, OddR, DataR("other", TRUE), DataR("ok", FALSE), DataR("rs", FALSE), DataR("dh", TRUE),
                DiagR(FALSE, FALSE, FALSE, FALSE), DiagR(FALSE, FALSE, TRUE, TRUE), DiagR(TRUE, FALSE, FALSE, TRUE), DiagR(FALSE, TRUE, FALSE, TRUE),
                DiagR(FALSE, FALSE, TRUE, FALSE), DiagR(FALSE, FALSE, FALSE, TRUE)}

(* the environment's decision about the outstanding request, one named action per decision (MC_DpSched records them) *)
Pending == out # NoTx /\ bad = "none"
ResNobody  == /\ Pending /\ ~sl[out.p].pw /\ Timeout /\ UNCHANGED <<sl, faults, users>>                   \* nobody there
ResLoseReq == /\ Pending /\ sl[out.p].pw /\ Fault /\ Timeout /\ UNCHANGED <<sl, users>>                   \* request lost
ResDeliver == /\ Pending /\ sl[out.p].pw
              /\ LET i == out.p  e == SlaveExec(i, sl[i], out) IN
                 /\ sl' = [sl EXCEPT ![i] = e.s]
                 /\ IF e.r.k # "none" THEN Receive(e.r) ELSE Timeout
                 /\ UNCHANGED <<faults, users>>
ResLoseReply == /\ Pending /\ sl[out.p].pw /\ Fault                                                     \* reply lost or corrupted
                /\ LET i == out.p  e == SlaveExec(i, sl[i], out) IN sl' = [sl EXCEPT ![i] = e.s]
                /\ Timeout /\ UNCHANGED users
ResSubst(r) == /\ Pending /\ sl[out.p].pw /\ Fault                                                      \* something else arrives instead
               /\ LET i == out.p  e == SlaveExec(i, sl[i], out) IN sl' = [sl EXCEPT ![i] = e.s] /\ r # e.r
               /\ Receive(r) /\ UNCHANGED users
Resolve == ResNobody \/ ResLoseReq \/ ResDeliver \/ ResLoseReply \/ (\E r \in Substitutes : ResSubst(r))

PowerCycle(i) == /\ Fault /\ sl[i].pw /\ bad = "none"
                 /\ sl' = [sl EXCEPT ![i] = FreshS] /\ UNCHANGED <<m, out, users, bad, mon>>
PowerOff(i)   == /\ Fault /\ sl[i].pw /\ bad = "none"
                 /\ sl' = [sl EXCEPT ![i] = [FreshS EXCEPT !.pw = FALSE]] /\ UNCHANGED <<m, out, users, bad, mon>>
PowerOn(i)    == /\ ~sl[i].pw /\ bad = "none"
                 /\ sl' = [sl EXCEPT ![i] = FreshS] /\ UNCHANGED <<m, out, faults, users, bad, mon>>
SlaveDiag(i)  == /\ Fault /\ sl[i].pw /\ ~sl[i].dp /\ sl[i].st = "DX" /\ bad = "none"
                 /\ sl' = [sl EXCEPT ![i].dp = TRUE] /\ UNCHANGED <<m, out, users, bad, mon>>
UserDiag(i)   == /\ users < UserBudget /\ users' = users + 1 /\ ~m.per[i].dn /\ bad = "none"
                 /\ m' = [m EXCEPT !.per[i].dn = TRUE] /\ UNCHANGED <<out, sl, faults, bad, mon>>

Next == Transmit \/ Resolve \/ (\E i \in Per : PowerCycle(i) \/ PowerOff(i) \/ PowerOn(i) \/ SlaveDiag(i) \/ UserDiag(i))
Spec == Init /\ [][Next]_vars /\ WF_vars(Transmit) /\ WF_vars(Resolve) /\ \A i \in Per : WF_vars(PowerOn(i))

NoBad == bad = "none"
TypeOK == /\ m.cyc \in -1..NP /\ \A i \in Per : m.per[i].st \in PStates /\ m.per[i].rc \in 0..(Retry + 2)
AllRunning == \A i \in Per : sl[i].pw /\ m.per[i].st = "DataExchange" /\ sl[i].st = "DX"
Recovers == <>[]AllRunning
(* a running peripheral is exchanging data for ever: every slot gets a positive answer again and again *)
=============================================================================
