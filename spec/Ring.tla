--------------------------------- MODULE Ring ---------------------------------
(* N stations (FdlStation!DoPoll, the same function that is bound to the code by trace conformance) *)
(* on one bus with abstract time (DESIGN 5.3): synchronous rounds, per-station quiet counters with   *)
(* sync / slot / time-out thresholds, joins onto an active bus, crashes, dropped telegrams.          *)
(* TLC checks: no panic, at most one transmitter per round on a fault-free bus (C01), GAP polls in   *)
(* range (C12), and under weak fairness of the round and finite fault budgets the ring converges     *)
(* to the online set and stays converged: <>[]Converged (C02, C06).                                  *)
EXTENDS Naturals, Integers, Sequences, FiniteSets, TLC

CONSTANTS Stations, HSA, G, Base, S, JoinBudget, LeaveBudget, DropBudget,
          ColdTogether,        \* TRUE: all initially online stations start at the same instant (C01/C02 premise)
          FixF2, FixF3, FixF14
M == INSTANCE FdlStation

VARIABLES st, online, quiet, wire, joins, leaves, drops, bad
vars == <<st, online, quiet, wire, joins, leaves, drops, bad>>

MeOf(s) == [ts |-> s, hsa |-> HSA, g |-> G, napps |-> 0]
NoWire == [by |-> -1, tg |-> M!Junk]
Cap(s) == S * (Base + 2 * s) + 1
InRing(s) == M!InRing(st[s])

Init == /\ online \in {f \in [Stations -> BOOLEAN] : \E x \in Stations : f[x]}
        /\ st = [s \in Stations |-> M!Fresh(MeOf(s))]
        /\ quiet = [s \in Stations |-> 0]
        /\ wire = NoWire /\ joins = 0 /\ leaves = 0 /\ drops = 0 /\ bad = "none"

InOf(s) ==
  LET fresh == wire.by # -1
      rx == IF fresh /\ wire.by # s THEN <<wire.tg>> ELSE <<>>
  IN [rx |-> rx, partial |-> FALSE, busy |-> FALSE,
      sync |-> ~fresh /\ quiet[s] >= 1, slot |-> ~fresh /\ quiet[s] >= S, lost |-> ~fresh /\ quiet[s] >= S * (Base + 2 * s),
      hold |-> TRUE, app |-> <<>>]

InGapOf(ts, a, ns) == a # ts /\ a < HSA /\ (IF ns > ts THEN a > ts /\ a < ns ELSE IF ns < ts THEN (a > ts \/ a < ns) ELSE TRUE)
Faulty == drops > 0 \/ leaves > 0 \/ ~ColdTogether

(* one round: every online station that is not deferred polls once *)
Polls(D) == [s \in Stations |-> IF online[s] /\ s \notin D THEN M!DoPoll(MeOf(s), st[s], InOf(s)) ELSE M!Res(st[s], <<>>, <<>>)]
Txers(r) == {s \in Stations : online[s] /\ r[s].tx # <<>>}
(* quiet[s]: rounds since station s last noticed bus activity - the end of its own transmission or *)
(* a telegram it received (a dropped telegram is activity only for its sender)                    *)
RoundWith(D) ==
  LET r == Polls(D)
      txers == Txers(r)
      panicked == \E s \in Stations : r[s].s.panic # "none"
      heard(s) == wire.by # -1 /\ wire.by # s /\ online[s] /\ s \notin D
      q(s) == IF s \in txers \/ heard(s) THEN 0
              ELSE IF online[s] /\ s \notin D /\ quiet[s] < Cap(s) THEN quiet[s] + 1 ELSE quiet[s]
  IN /\ bad = "none"
     /\ st' = [s \in Stations |-> r[s].s]
     /\ quiet' = [s \in Stations |-> q(s)]
     /\ IF txers = {} THEN /\ wire' = NoWire
                           /\ bad' = IF panicked THEN "panic" ELSE "none"
        ELSE IF Cardinality(txers) = 1 THEN
               LET x == CHOOSE s \in txers : TRUE  t == r[x].tx[1] IN
               /\ wire' = [by |-> x, tg |-> t]
               /\ bad' = IF panicked THEN "panic"
                         ELSE IF t.k = "sreq" /\ ~InGapOf(x, t.da, st[x].ring.ns) THEN "C12.range"
                         ELSE "none"
        ELSE IF ~Faulty THEN /\ bad' = "collision" /\ wire' = NoWire
        ELSE /\ bad' = (IF panicked THEN "panic" ELSE "none")
             /\ wire' = [by |-> -2, tg |-> M!Junk]          \* garbage for every listener
     /\ UNCHANGED <<online, joins, leaves, drops>>
Round == RoundWith({})
(* After a disturbance two stations may act in lock-step; on a real bus poll jitter breaks such a  *)
(* symmetry: when a synchronous round would collide, some of the colliding stations may poll one   *)
(* round later.  Strong fairness of this action is the assumption "lock-step does not last forever". *)
RoundAsym ==
  /\ Faulty
  /\ LET tx0 == Txers(Polls({})) IN
     /\ Cardinality(tx0) >= 2
     /\ \E D \in SUBSET tx0 : D # {} /\ D # tx0 /\ RoundWith(D)
(* the same with all but one of the colliding stations late: a clean telegram gets through *)
RoundOneOf(x) ==
  /\ Faulty
  /\ LET tx0 == Txers(Polls({})) IN
     /\ Cardinality(tx0) >= 2 /\ x \in tx0
     /\ RoundWith(tx0 \ {x})

Join(s) == /\ ~online[s] /\ joins < JoinBudget /\ bad = "none"
           /\ \E t \in Stations : online[t] /\ InRing(t)        \* onto an active bus (no cold-start race)
           /\ online' = [online EXCEPT ![s] = TRUE] /\ st' = [st EXCEPT ![s] = M!Fresh(MeOf(s))] /\ quiet' = [quiet EXCEPT ![s] = 0]
           /\ joins' = joins + 1 /\ UNCHANGED <<wire, leaves, drops, bad>>
Leave(s) == /\ online[s] /\ leaves < LeaveBudget /\ bad = "none" /\ Cardinality({t \in Stations : online[t]}) > 1
            /\ online' = [online EXCEPT ![s] = FALSE] /\ leaves' = leaves + 1
            /\ UNCHANGED <<st, quiet, wire, joins, drops, bad>>
Drop == /\ wire.by # -1 /\ drops < DropBudget /\ bad = "none"
        /\ wire' = NoWire /\ drops' = drops + 1 /\ UNCHANGED <<st, online, quiet, joins, leaves, bad>>

Next == Round \/ RoundAsym \/ Drop \/ (\E s \in Stations : Join(s) \/ Leave(s))
Spec == Init /\ [][Next]_vars /\ WF_vars(Round \/ RoundAsym) /\ \A x \in Stations : SF_vars(RoundOneOf(x))

On == {s \in Stations : online[s]}
MinOf(Q) == CHOOSE x \in Q : \A y \in Q : x <= y
MaxOf(Q) == CHOOSE x \in Q : \A y \in Q : x >= y
SuccIn(s, O) == LET up == {a \in O : a > s} IN IF up # {} THEN MinOf(up) ELSE MinOf(O)
PredIn(s, O) == LET dn == {a \in O : a < s} IN IF dn # {} THEN MaxOf(dn) ELSE MaxOf(O)
Converged == \A s \in On : InRing(s) /\ st[s].ring.las = On /\ st[s].ring.ns = SuccIn(s, On) /\ st[s].ring.ps = PredIn(s, On)
NoBad == bad = "none"
EventuallyStable == <>[]Converged
=============================================================================
