SPECIFICATION Spec
CONSTANTS FixF6 = TRUE FixF15 = TRUE Retry = 1 NP = 0 FaultBudget = 1 UserBudget = 0 Nin0 = {} AllowGc = TRUE
INVARIANTS NoBad TypeOK
PROPERTY Recovers
CHECK_DEADLOCK FALSE
