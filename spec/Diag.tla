-------------------------------- MODULE Diag --------------------------------
(* DP slave diagnostics (src/dp/diagnostics.rs, handle_diagnostics_response in peripheral.rs,    *)
(* parse_diag_response in scan.rs): the 6-byte standard part, storing of extended diagnostics,   *)
(* and the extended-diagnostics block iterator as a cursor machine (C17).                        *)
EXTENDS Naturals, Integers, Sequences, FiniteSets, SequencesExt, TLC

(* ------------------------------------------------------------------ standard part *)
PermanentBit == 1024
MaskPerm(f) == IF (f \div PermanentBit) % 2 = 1 THEN f - PermanentBit ELSE f
DiagInfo(pdu) == [flags |-> MaskPerm(pdu[1] + 256 * pdu[2]),
                  master |-> IF pdu[4] = 255 THEN -1 ELSE pdu[4],
                  ident |-> 256 * pdu[5] + pdu[6]]
HasExt(pdu) == (pdu[1] \div 8) % 2 = 1
(* extended diagnostics kept by the peripheral after a reply: stored only if flagged and fitting *)
Fill(stored, pdu, bufsize) ==
  LET ext == SubSeq(pdu, 7, Len(pdu)) IN
  IF HasExt(pdu) /\ bufsize > 0 /\ Len(ext) <= bufsize THEN ext ELSE stored

(* ------------------------------------------------------------------ block iterator *)
BitsSet(bytes) == UNION {{(i - 1) * 8 + x : x \in {y \in 0..7 : (bytes[i] \div (2 ^ y)) % 2 = 1}} : i \in DOMAIN bytes}

DType(b) == LET c == b \div 32 IN IF c \in 1..6 THEN c ELSE 7
(* error type of a channel-related block: 1..9 are named errors, 16..31 manufacturer specific, the rest reserved *)
ErrClass(x) == IF x \in 1..9 THEN "named" ELSE IF x \in 16..31 THEN "vendor" ELSE "reserved"
(* one block at 0-based offset off, or a stop *)
BlockAt(buf, off) ==
  LET rem == SubSeq(buf, off + 1, Len(buf))
      h == rem[1]
      kind == h \div 64
      len == h % 64
  IN CASE kind = 1 -> IF len = 0 \/ Len(rem) < len THEN [k |-> "stop"]
                      ELSE [k |-> "identifier", off |-> off, len |-> len, ones |-> BitsSet(SubSeq(rem, 2, len)), bits |-> 8 * (len - 1)]
       [] kind = 2 -> IF Len(rem) < 3 THEN [k |-> "stop"]
                      ELSE [k |-> "channel", off |-> off, len |-> 3, module |-> rem[1] % 64, channel |-> rem[2] % 64,
                            input |-> (rem[2] \div 64) % 2 = 1, output |-> (rem[2] \div 128) % 2 = 1,
                            dtype |-> DType(rem[3]), error |-> rem[3] % 32, errk |-> ErrClass(rem[3] % 32)]
       [] kind = 0 -> IF len = 0 \/ Len(rem) < len THEN [k |-> "stop"]
                      ELSE [k |-> "device", off |-> off, len |-> len, data |-> SubSeq(rem, 2, len)]
       [] OTHER    -> [k |-> "stop"]

RECURSIVE BlocksFrom(_, _, _)
BlocksFrom(buf, off, acc) ==
  IF off >= Len(buf) THEN acc
  ELSE LET b == BlockAt(buf, off) IN
       IF b.k = "stop" THEN acc ELSE BlocksFrom(buf, off + b.len, Append(acc, b))
Blocks(buf) == BlocksFrom(buf, 0, <<>>)

(* ------------------------------------------------------------------ clauses on the operators (checked by TLC in MC_Diag) *)
Inside(buf) == \A i \in DOMAIN Blocks(buf) : Blocks(buf)[i].off + Blocks(buf)[i].len <= Len(buf) /\ Blocks(buf)[i].len >= 1
Consecutive(buf) == LET bs == Blocks(buf) IN
                    /\ bs # <<>> => bs[1].off = 0
                    /\ \A i \in 1..(Len(bs) - 1) : bs[i + 1].off = bs[i].off + bs[i].len

(* ------------------------------------------------------------------ layer P: judge a recorded call *)
(* e: pdu, bufsize, prev (stored before), flags, ident, master, stored (after), blocks (<<[k, len, ...]>>), fmt_ok *)
Strip(b) == [x \in DOMAIN b \ {"off"} |-> b[x]]
NormBlock(b) == IF b.k = "identifier" THEN [b EXCEPT !.ones = ToSet(@)] ELSE b
DiagClause(e) ==
  LET info == DiagInfo(e.pdu)
      exp == Fill(e.prev, e.pdu, e.bufsize)
      bs == Blocks(e.stored)
  IN CASE MaskPerm(e.flags) # info.flags \/ e.ident # info.ident \/ e.master # info.master -> "C17.header"
       [] e.stored # exp -> "C17.fit"
       [] Len(e.blocks) # Len(bs) -> "C17.blocks"
       [] \E i \in DOMAIN bs : NormBlock(e.blocks[i]) # Strip(bs[i]) -> "C17.kinds"
       [] ~e.fmt_ok -> "C17.total"
       [] OTHER -> "ok"
=============================================================================
