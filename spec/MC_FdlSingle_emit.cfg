SPECIFICATION Spec
CONSTANTS TS = 2 HSA = 5 G = 1 NApps = 1 Others = {1, 3, 126} AppTargets = {9}
  MaxDepth = 3 WithPartial = FALSE Held = FALSE Warm = FALSE WarmPS = 1 WarmNS = 3 Emit = "state"
  FixF2 = FALSE FixF3 = FALSE FixF14 = FALSE
INVARIANT EmitState
VIEW View
CONSTRAINT BufBound
CHECK_DEADLOCK FALSE
