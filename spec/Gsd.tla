--------------------------------- MODULE Gsd ---------------------------------
(* The GSD statement interpreter (gsd-parser/src/parser.rs `parse_inner`) above the lexical layer: *)
(* an abstract document is a sequence of statements; Interp(doc) is the station description the     *)
(* file states (C19.faithful).  Statements (records, field s):                                      *)
(*   set(key, v)            scalar settings (strings, numbers, booleans)                            *)
(*   speed(i, supp), tsdr(i, v)                                                                     *)
(*   prmtext(id, vals)      vals = <<[t, v]>>, v as 16-bit limbs                                    *)
(*   extprm(id, def)        def = [name, ty, default, constraint, textref, changeable, visible]     *)
(*   prmref(off, id), prmconst(off, data), maxuserprmlen, userprmlen(n), userprm(data)              *)
(*   module(name, config, reference, len, consts, refs)                                             *)
(*   slot(number, name, default, allowed)                                                           *)
(*   diagbit(bit, text)                                                                             *)
EXTENDS Naturals, Integers, Sequences, FiniteSets, SequencesExt, TLC

NoPrm == [len |-> 0, consts |-> <<>>, refs |-> <<>>]
Init0 ==
  [rev |-> 0, vendor |-> "", model |-> "", revision |-> "", ident |-> 0, hw |-> "", sw |-> "", fail_safe |-> FALSE,
   speeds |-> [i \in 1..11 |-> FALSE], tsdr |-> <<60, 60, 60, 60, 60, 60, 100, 150, 250, 450, 800>>,
   modular |-> FALSE, max_modules |-> 0, maxmodset |-> FALSE, max_diag |-> 0,
   freeze |-> FALSE, sync |-> FALSE, autobaud |-> FALSE, setaddr |-> FALSE,
   max_in |-> 0, max_out |-> 0, max_data |-> 0, impl |-> "", revnum |-> 0,
   station |-> NoPrm, legacy |-> NoPrm, legacyOn |-> TRUE,
   modules |-> <<>>, slots |-> <<>>, diagbits |-> <<>>,
   texts |-> <<>>,      \* <<[id, vals]>> (later definitions of an id override)
   defs |-> <<>>]       \* <<[id, def]>>

(* text table: for each distinct text the last value *)
TextSet(vals) == {[t |-> vals[i].t, v |-> vals[i].v] : i \in {k \in DOMAIN vals : \A j \in DOMAIN vals : j > k => vals[j].t # vals[k].t}}
Lookup(tab, id) == LET S == {i \in DOMAIN tab : tab[i].id = id} IN IF S = {} THEN 0 ELSE CHOOSE i \in S : \A j \in S : j <= i
Resolve(st, r) == [off |-> r.off, def |-> st.defs[Lookup(st.defs, r.id)].def]

SetScalar(st, k, v) ==
  CASE k = "gsd_revision" -> [st EXCEPT !.rev = v] [] k = "vendor_name" -> [st EXCEPT !.vendor = v]
    [] k = "model_name" -> [st EXCEPT !.model = v] [] k = "revision" -> [st EXCEPT !.revision = v]
    [] k = "revision_number" -> [st EXCEPT !.revnum = v]
    [] k = "ident_number" -> [st EXCEPT !.ident = v] [] k = "hardware_release" -> [st EXCEPT !.hw = v]
    [] k = "software_release" -> [st EXCEPT !.sw = v] [] k = "fail_safe" -> [st EXCEPT !.fail_safe = v]
    [] k = "implementation_type" -> [st EXCEPT !.impl = v]
    [] k = "modular_station" -> [st EXCEPT !.modular = v]
    [] k = "max_module" -> [st EXCEPT !.max_modules = v, !.maxmodset = TRUE]
    [] k = "max_input_len" -> [st EXCEPT !.max_in = v] [] k = "max_output_len" -> [st EXCEPT !.max_out = v]
    [] k = "max_data_len" -> [st EXCEPT !.max_data = v]
    [] k = "max_diag_data_len" -> [st EXCEPT !.max_diag = v]
    [] k = "freeze_mode_supp" -> [st EXCEPT !.freeze = v] [] k = "sync_mode_supp" -> [st EXCEPT !.sync = v]
    [] k = "auto_baud_supp" -> [st EXCEPT !.autobaud = v] [] k = "set_slave_add_supp" -> [st EXCEPT !.setaddr = v]
    [] OTHER -> st         \* unknown keywords are ignored

ModByRef(st, ref) == LET S == {i \in DOMAIN st.modules : st.modules[i].reference = ref} IN IF S = {} THEN 0 ELSE CHOOSE i \in S : \A j \in S : i <= j
Step(st, x) ==
  CASE x.s = "set" -> SetScalar(st, x.key, x.v)
    [] x.s = "speed" -> [st EXCEPT !.speeds[x.i] = @ \/ x.v]
    [] x.s = "tsdr" -> [st EXCEPT !.tsdr[x.i] = x.v]
    [] x.s = "prmtext" -> [st EXCEPT !.texts = Append(@, [id |-> x.id, vals |-> TextSet(x.vals)])]
    [] x.s = "extprm" ->
         LET hastexts == x.textref # -1
             d == [name |-> x.name, ty |-> x.ty, default |-> x.default, constraint |-> x.constraint,
                   hastexts |-> hastexts, texts |-> IF hastexts THEN st.texts[Lookup(st.texts, x.textref)].vals ELSE {},
                   changeable |-> x.changeable, visible |-> x.visible]
         IN [st EXCEPT !.defs = Append(@, [id |-> x.id, def |-> d])]
    [] x.s = "prmref" -> [st EXCEPT !.station.refs = Append(@, Resolve(st, x)), !.legacyOn = FALSE]
    [] x.s = "prmconst" -> [st EXCEPT !.station.consts = Append(@, [off |-> x.off, data |-> x.data]), !.legacyOn = FALSE]
    [] x.s = "maxuserprmlen" -> [st EXCEPT !.legacyOn = FALSE]
    [] x.s = "userprmlen" -> IF st.legacyOn THEN [st EXCEPT !.legacy.len = x.n] ELSE st
    [] x.s = "userprm" -> IF st.legacyOn THEN [st EXCEPT !.legacy.consts = Append(@, [off |-> 0, data |-> x.data])] ELSE st
    [] x.s = "module" ->
         [st EXCEPT !.modules = Append(@, [name |-> x.name, config |-> x.config, reference |-> x.reference, info |-> x.info,
                                           prm |-> [len |-> x.len, consts |-> x.consts, refs |-> [i \in DOMAIN x.refs |-> Resolve(st, x.refs[i])]]])]
    [] x.s = "slot" ->
         [st EXCEPT !.slots = Append(@, [number |-> x.number, name |-> x.name, default |-> x.default,
                                         allowed |-> SelectSeq(x.allowed, LAMBDA r : ModByRef(st, r) # 0)])]
    [] x.s = "diagbit" -> [st EXCEPT !.diagbits = Append(SelectSeq(@, LAMBDA b : b.bit # x.bit), [bit |-> x.bit, text |-> x.text])]
    [] OTHER -> st

RECURSIVE Run(_, _, _)
Run(st, doc, i) == IF i > Len(doc) THEN st ELSE Run(Step(st, doc[i]), doc, i + 1)

Finish(st) ==
  LET st1 == IF st.legacyOn THEN [st EXCEPT !.station = st.legacy] ELSE st
      st2 == IF ~st1.maxmodset THEN [st1 EXCEPT !.max_modules = 1] ELSE st1
  IN IF ~st2.modular THEN [st2 EXCEPT !.max_modules = 1] ELSE st2

Interp(doc) == Finish(Run(Init0, doc, 1))

(* projection compared with the parser's result *)
Proj(st) ==
  [rev |-> st.rev, vendor |-> st.vendor, model |-> st.model, revision |-> st.revision, revnum |-> st.revnum, ident |-> st.ident, hw |-> st.hw, sw |-> st.sw,
   impl |-> st.impl, fail_safe |-> st.fail_safe, speeds |-> st.speeds, tsdr |-> st.tsdr, modular |-> st.modular, max_modules |-> st.max_modules,
   max_diag |-> st.max_diag, freeze |-> st.freeze, sync |-> st.sync, autobaud |-> st.autobaud, setaddr |-> st.setaddr,
   max_in |-> st.max_in, max_out |-> st.max_out, max_data |-> st.max_data,
   station |-> st.station, modules |-> st.modules, slots |-> st.slots, diagbits |-> ToSet(st.diagbits)]

(* the recorded projection carries text tables and diag bits as lists: make them sets *)
NormDef(d) == [d EXCEPT !.texts = ToSet(@)]
NormPrm(p) == [p EXCEPT !.refs = [i \in DOMAIN @ |-> [off |-> @[i].off, def |-> NormDef(@[i].def)]]]
NormProj(p) == [p EXCEPT !.station = NormPrm(@), !.modules = [i \in DOMAIN @ |-> [@[i] EXCEPT !.prm = NormPrm(@)]], !.diagbits = ToSet(@)]

Differs(doc, proj) == LET a == Proj(Interp(doc)) b == NormProj(proj) IN {f \in DOMAIN a : a[f] # b[f]}
=============================================================================
