SPECIFICATION Spec
CONSTANTS TS = 2 HSA = 5 G = 1 NApps = 1 Others = {1, 3, 126} AppTargets = {9}
  MaxDepth = 7 WithPartial = FALSE Held = FALSE Warm = FALSE WarmPS = 1 WarmNS = 3 Emit = "none"
  FixF2 = TRUE FixF3 = TRUE FixF14 = FALSE
INVARIANT NoPanic
INVARIANT RulesOk
INVARIANT TypeOk
VIEW View
CONSTRAINT BufBound
CHECK_DEADLOCK FALSE
