----------------------------- MODULE TraceSweep -----------------------------
EXTENDS SweepRules, Json, IOUtils
Rec == ndJsonDeserialize(IOEnv.TRACE)
VARIABLES l, rs, bad, cov, dead, runs
vars == <<l, rs, bad, cov, dead, runs>>
TInit == l = 1 /\ rs = [none |-> TRUE] /\ bad = <<>> /\ cov = [c \in AllClauses |-> 0] /\ dead = TRUE /\ runs = 0
TNext ==
  /\ l <= Len(Rec) /\ l' = l + 1
  /\ LET e == Rec[l] IN
     IF e.ev = "Cfg" THEN rs' = RuleInit(e) /\ dead' = FALSE /\ runs' = runs + 1 /\ UNCHANGED <<bad, cov>>
     ELSE IF e.ev = "Reset" THEN dead' = TRUE /\ UNCHANGED <<rs, bad, cov, runs>>
     ELSE IF dead THEN UNCHANGED <<rs, bad, cov, dead, runs>>
     ELSE LET r == RuleStep(rs, e) IN
          /\ rs' = r.rs /\ runs' = runs
          /\ cov' = [c \in AllClauses |-> cov[c] + Cardinality({i \in DOMAIN r.hits : r.hits[i] = c})]
          /\ IF r.clause = "ok" THEN UNCHANGED <<bad, dead>>
             ELSE bad' = Append(bad, [l |-> l, clause |-> r.clause, sig |-> r.sig]) /\ dead' = TRUE
TSpec == TInit /\ [][TNext]_vars
Done == l = Len(Rec) + 1 => PrintT(<<"RESULT", ToJson([n |-> Len(Rec), bad |-> bad, cov |-> cov, conf |-> [n |-> 0, ok |-> 0], drift |-> <<>>, runs |-> runs])>>)
Complete == TLCGet("stats").diameter - 1 = Len(Rec)
=============================================================================
