SPECIFICATION Spec
CONSTANTS Stations = {0, 2, 3} HSA = 4 G = 1 Base = 2 S = 4 JoinBudget = 1 LeaveBudget = 1 DropBudget = 1 ColdTogether = TRUE
  FixF2 = TRUE FixF3 = TRUE FixF14 = TRUE
INVARIANT NoBad
CHECK_DEADLOCK FALSE
