------------------------------ MODULE MC_Sweep ------------------------------
(* Implementation-shaped model of the live list / DP scanner sweep (cursor over the address space, *)
(* per-address done flag, station set, one event slot) against every history of responders         *)
(* appearing / disappearing and lost replies within the budgets (C18 on the model).                 *)
EXTENDS Naturals, Integers, FiniteSets, TLC
CONSTANTS N,            \* addresses 0..N-1 (the code uses 126)
          Self, ChangeBudget, LossBudget
Addr == 0..(N - 1)
VARIABLES stations, cursor, done, resp, changes, losses, quiet, found, viol
vars == <<stations, cursor, done, resp, changes, losses, quiet, found, viol>>
Init == /\ stations = {} /\ cursor = 0 /\ done = FALSE /\ resp \in SUBSET Addr /\ changes = 0 /\ losses = 0
        /\ quiet = 0 /\ found = {} /\ viol = "none"
(* one application turn: either advance the cursor (after a probe was completed) or probe the cursor address *)
Turn ==
  IF done THEN /\ done' = FALSE /\ cursor' = (cursor + 1) % N
               /\ UNCHANGED <<stations, resp, changes, losses, quiet, found, viol>>
  ELSE \E lose \in {FALSE, TRUE} :
         /\ lose => (losses < LossBudget /\ cursor \in resp /\ cursor # Self)
         /\ losses' = IF lose THEN losses + 1 ELSE losses
         /\ LET answered == cursor \in resp /\ cursor # Self /\ ~lose IN
            /\ done' = TRUE
            /\ IF answered
               THEN /\ stations' = stations \cup {cursor}
                    /\ found' = IF cursor \notin stations THEN found \cup {cursor} ELSE found
                    /\ viol' = IF cursor \notin stations /\ cursor \in found THEN "C18.alternate" ELSE viol
               ELSE /\ stations' = stations \ {cursor}
                    /\ found' = IF cursor \in stations THEN found \ {cursor} ELSE found
                    /\ viol' = IF cursor \in stations /\ cursor \notin found THEN "C18.alternate" ELSE viol
            /\ quiet' = IF lose THEN 0 ELSE quiet + 1
         /\ UNCHANGED <<cursor, resp, changes>>
Change == /\ changes < ChangeBudget /\ changes' = changes + 1
          /\ \E a \in Addr : resp' = IF a \in resp THEN resp \ {a} ELSE resp \cup {a}
          /\ quiet' = 0 /\ UNCHANGED <<stations, cursor, done, losses, found, viol>>
Next == Turn \/ Change
Spec == Init /\ [][Next]_vars /\ WF_vars(Turn)
NoViol == viol = "none"
EventsMatchList == found = stations
(* two full sweeps (2N probes) without change or loss: the list is exact *)
Converged == quiet >= 2 * N => stations = resp \ {Self}
EventuallyExact == <>[](stations = resp \ {Self})
QuietCap == quiet <= 2 * N + 1
=============================================================================
