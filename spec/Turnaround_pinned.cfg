SPECIFICATION Spec
CONSTANTS Tsl = 100 Period = 25 TxLen = 33 ChainedPass = FALSE
INVARIANT NoCollision
CHECK_DEADLOCK FALSE
