SPECIFICATION Spec
CONSTANTS Alphabet = {0, 1, 2, 3, 64, 65, 66, 67, 70, 128, 129, 192, 255, 127, 63}
  MaxLen = 4
INVARIANT BlocksOk
INVARIANT StopsAtMalformed
CHECK_DEADLOCK FALSE
