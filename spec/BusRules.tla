------------------------------ MODULE BusRules ------------------------------
(* Layer P rule monitor over the event log of a multi-station run (harness `pbv ring`,           *)
(* `pbv single`): who may transmit and when (C01), token hand-over (C11), GAP maintenance and    *)
(* status replies (C12), hold time (C13), application call-back discipline (C15), ring           *)
(* formation / recovery (C02 / C06), totality (C05).  A deterministic monitor:                   *)
(*   RuleStep(rs, e) = [clause |-> "ok" | first failing clause, rs |-> next rule state, ...]     *)
(* Only wire bytes, timestamps, public getters (view) and environment knowledge are used.        *)
EXTENDS Naturals, Integers, Sequences, FiniteSets, SequencesExt, TLC

(* ------------------------------------------------------------------ minimal wire decoding *)
Kind(b) == CASE b[1] = 220 /\ Len(b) = 3 -> "token"
             [] b[1] = 229 /\ Len(b) = 1 -> "sc"
             [] b[1] \in {16, 104, 162} /\ Len(b) >= 6 -> "data"
             [] OTHER -> "junk"
Hdr(b)  == IF b[1] = 104 THEN 4 ELSE 1
Da(b)   == IF b[1] = 220 THEN b[2] ELSE b[Hdr(b) + 1] % 128
Sa(b)   == IF b[1] = 220 THEN b[3] ELSE b[Hdr(b) + 2] % 128
Fc(b)   == b[Hdr(b) + 3]
IsReq(b) == Kind(b) = "data" /\ (Fc(b) \div 64) % 2 = 1
ExpectsReply(b) == IsReq(b) /\ (Fc(b) % 16) \in {3, 5, 7, 9, 12, 13, 14, 15} /\ Fc(b) < 128
IsResp(b) == Kind(b) = "sc" \/ (Kind(b) = "data" /\ ~IsReq(b))
IsStatusReq(b) == IsReq(b) /\ Fc(b) % 16 = 9 /\ Fc(b) < 128 /\ b[1] = 16
RespState(b) == (Fc(b) \div 16) % 4
RespStatus(b) == Fc(b) % 16

(* ------------------------------------------------------------------ helpers *)
Max2(a, b) == IF a > b THEN a ELSE b
SetMin(S) == CHOOSE x \in S : \A y \in S : x <= y
SetMax(S) == CHOOSE x \in S : \A y \in S : x >= y
Succ(S, a) == LET up == {x \in S : x > a} IN IF up # {} THEN SetMin(up) ELSE SetMin(S)
Pred(S, a) == LET dn == {x \in S : x < a} IN IF dn # {} THEN SetMax(dn) ELSE SetMax(S)
InGap(ts, ns, hsa, a) ==
  /\ a # ts /\ a < hsa
  /\ IF ns > ts THEN a > ts /\ a < ns ELSE IF ns < ts THEN (a > ts \/ a < ns) ELSE TRUE
GapSet(ts, ns, hsa) == {a \in 0..(hsa - 1) : InGap(ts, ns, hsa, a)}

NoView == [in_ring |-> FALSE, ready |-> FALSE, las |-> <<>>, ns |-> -1, ps |-> -1]
NoTx == [by |-> -1, t0 |-> 0, t1 |-> 0, b |-> <<0>>, app |-> FALSE]
NoGrant == [froms |-> {}, just |-> FALSE, inring |-> FALSE, pending |-> FALSE]
(* offers made to station d since it last acted: an acceptance is justified if SOME pending offer justifies it *)
Offer(rs, d, from) ==
  LET g == rs.grant[d]
      j == from = rs.pub[d].ps \/ from \in rs.offered[d]
  IN IF g.pending THEN [froms |-> g.froms \cup {from}, just |-> g.just \/ j, inring |-> g.inring \/ rs.pub[d].in_ring, pending |-> TRUE]
     ELSE [froms |-> {from}, just |-> j, inring |-> rs.pub[d].in_ring, pending |-> TRUE]
NoVisit == [open |-> FALSE, claim |-> FALSE, gappolls |-> 0, appreqs |-> 0, tok2 |-> FALSE]
NoPass == [by |-> -1, to |-> -1, n |-> 0]
NoWatch == [by |-> -1, to |-> -1, heard |-> FALSE, t |-> 0]
NoRot == [cur |-> {}, prev |-> {}, prev2 |-> {}, n |-> 0, started |-> FALSE, claimed |-> FALSE, ok |-> FALSE]

Stations(cfg) == ToSet(cfg.stations)
Idx(cfg, s) == CHOOSE i \in 1..Len(cfg.stations) : cfg.stations[i] = s
Tto(cfg, s) == cfg.tto[Idx(cfg, s)]
Period(cfg, s) == cfg.period[Idx(cfg, s)]
NApps(cfg, s) == cfg.napps[Idx(cfg, s)]
FaultMode(cfg) == cfg.mode \in {"fault", "race", "vanish", "lasttx"}

RuleInit(cfg) ==
  LET St == Stations(cfg) IN
  [cfg |-> cfg, St |-> St,
   last |-> NoTx, holder |-> -1,
   since |-> [s \in St |-> 0], online |-> {},
   pub |-> [s \in St |-> NoView], pre |-> [s \in St |-> NoView],
   grant |-> [s \in St |-> NoGrant],
   offered |-> [s \in St |-> {}], selfOffer |-> [s \in St |-> FALSE], selfSeen |-> -1, envSince |-> 0, pasTaint |-> FALSE, joinedBusy |-> [s \in St |-> FALSE], junkSince |-> [s \in St |-> FALSE], rogue |-> FALSE, unread |-> 0,
   pas |-> NoPass,
   visit |-> [s \in St |-> NoVisit],
   recvPrev |-> [s \in St |-> -1], recvCur |-> [s \in St |-> -1],
   cadNs |-> [s \in St |-> -1], cadPolled |-> [s \in St |-> {}], cadVisits |-> [s \in St |-> 0], cadBad |-> FALSE,
   expectSucc |-> [s \in St |-> -1],
   appsent |-> [s \in St |-> FALSE],
   outstanding |-> [s \in St |-> -1], rrNext |-> [s \in St |-> -1], declined |-> [s \in St |-> {}], asked |-> [s \in St |-> {}], sentInVisit |-> [s \in St |-> FALSE], hpUsed |-> [s \in St |-> FALSE], unasked |-> [s \in St |-> [a \in 0..3 |-> 0]],
   hw |-> NoWatch,
   rot |-> [s \in St |-> NoRot],
   lastPop |-> 0, faultsEnd |-> -1, disturbed |-> cfg.mode = "race", garbled |-> cfg.mode = "race", reached |-> FALSE, reachedAt |-> -1,
   tokensSinceReached |-> 0, goodTokens |-> 0, lastTokDa |-> -1]

(* ------------------------------------------------------------------ result plumbing *)
R(clause, sig, rs, hits) == [clause |-> clause, all |-> IF clause = "ok" THEN <<>> ELSE <<clause>>, sig |-> sig, rs |-> rs, hits |-> hits]
(* every failing clause of an event (each is judged per property by the trace specification) *)
RA(cs, sig, rs, hits) == LET bad == SelectSeq(cs, LAMBDA c : ~c[2]) IN
  [clause |-> IF bad = <<>> THEN "ok" ELSE bad[1][1], all |-> [i \in 1..Len(bad) |-> bad[i][1]], sig |-> sig, rs |-> rs, hits |-> hits]
NoSig == [x |-> 0]
(* first failing clause of a sequence of <<name, holds>> pairs *)
FirstBad(cs) == LET bad == SelectSeq(cs, LAMBDA c : ~c[2]) IN IF bad = <<>> THEN "ok" ELSE bad[1][1]
Names(cs) == [i \in DOMAIN cs |-> cs[i][1]]

(* ------------------------------------------------------------------ convergence (C02 / C06) *)
Agree(rs, s) ==
  LET v == rs.pub[s] on == rs.online IN
  /\ v.in_ring /\ ToSet(v.las) = on
  /\ (Cardinality(on) > 1 => (v.ns = Succ(on, s) /\ v.ps = Pred(on, s)))
AllAgree(rs) == rs.online # {} /\ \A s \in rs.online : Agree(rs, s)
ConvActive(rs) == IF rs.cfg.mode \in {"single", "claim"} THEN FALSE ELSE IF FaultMode(rs.cfg) THEN rs.faultsEnd # -1 ELSE TRUE
(* recovered / converged: all views agree and the last 2N tokens went round in address order *)
TryReach(rs, t) ==
  IF ~rs.reached /\ ConvActive(rs) /\ AllAgree(rs) /\ rs.goodTokens >= 2 * Cardinality(rs.online)
  THEN [rs EXCEPT !.reached = TRUE, !.reachedAt = t, !.tokensSinceReached = 0] ELSE rs
ConvProp(rs) == IF FaultMode(rs.cfg) THEN "C06" ELSE "C02"
Deadline(rs) == IF FaultMode(rs.cfg) THEN Max2(rs.faultsEnd, rs.lastPop) + rs.cfg.brec ELSE rs.lastPop + rs.cfg.bconv

(* ------------------------------------------------------------------ Tx *)
Class(rs, e) ==
  LET b == e.b last == rs.last gap == e.t0 - last.t1 s == e.st IN
  IF last.by # -1 /\ ExpectsReply(last.b) /\ Da(last.b) = s /\ IsResp(b) /\ last.by # s THEN "Reply"
  ELSE IF Kind(b) = "token" /\ Da(b) = s /\ Sa(b) = s
          /\ e.t0 - Max2(last.t1, rs.since[s]) >= Tto(rs.cfg, s) - rs.cfg.us THEN "Claim"
  ELSE IF rs.holder = s THEN "Holder"
  ELSE IF last.by = s /\ Kind(last.b) = "token" /\ Kind(b) = "token" /\ gap >= rs.cfg.tsl - rs.cfg.us THEN "PassSupervision"
  ELSE "None"

(* new token visit of station s beginning at time t.  GAP cadence (C12.cadence): while NS is     *)
(* unchanged, every window of |GAP| + G + 5 visits must have polled every GAP address.            *)
NewVisit(rs, s, claim, tok2, t) ==
  LET ns == rs.pub[s].ns
      hsa == rs.cfg.hsa
      fresh == rs.cadNs[s] # ns
      visits == IF fresh THEN 0 ELSE rs.cadVisits[s] + 1
      gapsz == IF ns > s THEN ns - s - 1 ELSE IF ns < s THEN (hsa - 1 - s) + ns ELSE hsa - 1
      full == ~fresh /\ visits >= gapsz + rs.cfg.gap + 5
      missed == full /\ ~(GapSet(s, ns, hsa) \subseteq rs.cadPolled[s])
  IN [rs EXCEPT !.recvPrev[s] = rs.recvCur[s], !.recvCur[s] = t,
                !.visit[s] = [open |-> TRUE, claim |-> claim, gappolls |-> 0, appreqs |-> 0, tok2 |-> tok2],
                !.declined[s] = {}, !.asked[s] = {}, !.sentInVisit[s] = FALSE, !.hpUsed[s] = FALSE, !.pasTaint = FALSE,
                \* a request still unanswered when the station takes a new token was abandoned (an unexpected telegram
                \* ended the wait): 'at most one of reply / time-out per request'
                \* (against a scripted peer the order on the wire is not the order of processing: a reply that is still unread
                \* when the token arrives is delivered afterwards - there the next request simply replaces the entry)
                !.outstanding[s] = IF rs.cfg.mode = "single" THEN @ ELSE -1,
                !.cadNs[s] = ns,
                !.cadVisits[s] = IF full THEN 0 ELSE visits,
                !.cadPolled[s] = IF fresh \/ full THEN {} ELSE @,
                !.cadBad = @ \/ missed]

(* rotation bookkeeping for C12.ready: every online station that has not yet seen its     *)
(* rotations counts the token senders between wrap-arounds                                 *)
RotWitness(rs, sa, da, t0) ==
  [rs EXCEPT !.rot = [s \in rs.St |->
      LET r == rs.rot[s] IN
      IF s \notin rs.online \/ t0 < rs.since[s] THEN r
      ELSE IF sa > 125 \/ da > 125 THEN r          \* not a pass between masters (the list of active stations ignores it as well)
      ELSE IF sa = s /\ da = s THEN [r EXCEPT !.claimed = TRUE]
      ELSE IF ~r.started THEN (IF da <= sa THEN [r EXCEPT !.started = TRUE, !.cur = {}] ELSE r)
      ELSE LET cur == r.cur \cup {sa} IN
           IF da <= sa
           THEN \* a rotation is complete; two rotations with no new sender seen: sticky (the LAS stays valid).  "Identical" is
                \* not demanded sender by sender: the implementation verifies every pass of the second rotation against the
                \* list built so far, so a repeated (retried) wrap-around pass or a member that left completes the
                \* verification - the list is right at that point, which is what the clause protects
                [r EXCEPT !.prev2 = r.prev, !.prev = cur, !.cur = {}, !.n = r.n + 1,
                          !.ok = @ \/ (r.n + 1 >= 2 /\ cur \subseteq (r.prev \cup {s}))]
           ELSE [r EXCEPT !.cur = cur]]]

OnTx(rs, e) ==
  LET s == e.st  b == e.b  k == Kind(b)  cfg == rs.cfg  St == rs.St
      last == rs.last  gap == e.t0 - last.t1
      cls == Class(rs, e)
      \* signature of known finding F17: a claim token sent while (or within Tid after) another station's telegram is on
      \* the wire, as the first transmission of a station that came online in the middle of a telegram or has received
      \* undecodable bytes since its last transmission (it does not count what it hears as bus activity)
      f17 == k = "token" /\ Da(b) = s /\ Sa(b) = s /\ last.by # s /\ last.t1 > 0 /\ e.t0 <= last.t1 + cfg.tid /\ (rs.joinedBusy[s] \/ rs.junkSince[s])
      single == cfg.mode = "single"         \* one station against a scripted, possibly non-conforming peer
      judged == ~rs.disturbed               \* fault-free premise (C01 C11 C12 C13 C15)
      jring == judged /\ ~single            \* clauses that presuppose conforming partners
      (* ---- C01 *)
      c01 == <<
        <<"C01.overlap", last.by = -1 \/ e.t0 >= last.t1>>,
        <<"C01.permission", cls # "None">>,
        <<"C01.tsdr", cls = "Reply" => gap >= cfg.tsdr - cfg.us>>,
        <<"C01.tid", (cls # "Reply" /\ last.by # -1) => gap >= cfg.tid - cfg.us>> >>
      (* ---- C11.accept: first Holder-class transmission after a grant *)
      g == rs.grant[s]
      \* taking the token shows in an initiating telegram (token, request); answering an earlier
      \* request is not an acceptance
      \* (single-station runs: telegrams still unread in the PHY buffer when the station acts mean that
      \* wire order and processing order differ - not judged)
      accepting == cls = "Holder" /\ g.pending /\ ~rs.rogue /\ rs.unread = 0 /\ ~IsResp(b)
      \* the predecessor registered when the offer was made or when it was taken (the view may
      \* change inside the accepting poll through telegrams handled before the token)
      \* a token that bears the station's own address as source is never an offer (somebody else uses the address):
      \* the station must not start to act as token holder on it
      selfTaken == rs.selfOffer[s] /\ ~rs.rogue /\ rs.unread = 0 /\ cls \in {"Holder", "None"} /\ ~IsResp(b)
      c11a == << <<"C11.accept", accepting => (g.inring /\ (g.just \/ rs.pub[s].ps \in g.froms))>>,
                 <<"C11.accept", ~selfTaken>> >>
      (* ---- token specifics *)
      d == IF k = "token" THEN Da(b) ELSE -1
      passOn == k = "token" /\ d # s
      retry == passOn /\ cls = "PassSupervision" /\ rs.pas.by = s /\ rs.pas.to = d
      \* giving up the supervised successor: a token to anybody else, including the station itself when nobody is left
      \* (a token to itself counts only when it directly follows the station's own unanswered pass within two slot
      \* times - otherwise it is a claim after the token-lost time-out)
      selfGiveUp == d = s /\ last.by = s /\ Kind(last.b) = "token" /\ Da(last.b) = rs.pas.to /\ gap <= 2 * cfg.tsl
      moveOn == k = "token" /\ cls = "PassSupervision" /\ ~retry /\ (d # s \/ selfGiveUp)
      gd == IF d \in St THEN rs.grant[d] ELSE NoGrant
      c11t == <<
        <<"C11.max3", (retry /\ ~rs.pasTaint /\ rs.unread = 0) => rs.pas.n + 1 <= 3>>,
        \* "repeats the pass ... if nothing is heard": no other station has put anything on the wire since the pass that is
        \* repeated (at least two character times ago, so that the passer could have heard it)
        <<"C11.silent", (passOn /\ rs.pas.by = s /\ rs.pas.to = d /\ ~single /\ cls \in {"PassSupervision", "None"}) => (last.by = s \/ e.t0 < last.t0 + 2 * 11 * (cfg.tid \div 33))>>,
        <<"C11.immediate", (retry /\ ~single /\ d \in St /\ d \in rs.online) => ~(gd.pending /\ gd.just /\ gd.inring /\ gd.froms = {s} /\ s = rs.pub[d].ps)>>,
        <<"C11.drop", (moveOn /\ rs.pas.by = s /\ ~rs.pasTaint /\ rs.unread = 0) => rs.pas.to \notin ToSet(rs.pub[s].las)>>,
        \* "repeats the pass at most twice if nothing is heard, THEN removes the silent successor": the successor is
        \* given up only after the pass and both repetitions stayed unanswered (three offers)
        <<"C11.patience", (moveOn /\ rs.pas.by = s /\ ~rs.pasTaint /\ rs.unread = 0) => rs.pas.n >= 3>>,
        <<"C11.heard", TRUE>> >>
      c11o == <<
        <<"C12.successor", (passOn /\ ~single /\ rs.expectSucc[s] # -1) => rs.expectSucc[s] = d>>,
        <<"C02.order", (passOn /\ rs.reached /\ ~FaultMode(cfg) /\ s \in rs.online) => d = Succ(rs.online, s)>>,
        <<"C06.order", (passOn /\ rs.reached /\ FaultMode(cfg) /\ s \in rs.online) => d = Succ(rs.online, s)>> >>
      (* ---- status request of the holder: GAP poll unless an application sent it in this poll *)
      sreq == IsStatusReq(b) /\ cls = "Holder"
      gappoll == sreq /\ ~rs.appsent[s]
      v == rs.visit[s]
      c12g == <<
        <<"C12.range", gappoll => InGap(s, rs.pre[s].ns, cfg.hsa, Da(b))>>,
        <<"C12.one", (gappoll /\ ~single /\ v.open) => (v.gappolls + 1 <= 1 \/ v.claim)>> >>
      (* ---- application request *)
      appreq == IsReq(b) /\ cls = "Holder" /\ rs.appsent[s]
      \* "no application is starved": a token visit that ends without any application request has asked every
      \* application (each declined); an application that is not asked in four such visits in a row is starved
      napp == NApps(cfg, s)
      endsVisit == k = "token" /\ v.open /\ cls \in {"Holder", "PassSupervision"} /\ napp > 0 /\ ~rs.sentInVisit[s] /\ ~retry
      starved == {a \in 0..(napp - 1) : a \notin rs.asked[s] /\ rs.unasked[s][a] + 1 >= 4}
      c13 == <<
        <<"C13.hold", (appreq /\ ~single /\ v.open /\ v.appreqs >= 1 /\ rs.recvPrev[s] # -1)
                        => e.t0 < rs.recvPrev[s] + cfg.ttr + Period(cfg, s) + cfg.us>>,
        <<"C13.starve", (endsVisit /\ ~single) => starved = {}>> >>
      (* ---- reply to a status request *)
      sresp == cls = "Reply" /\ k = "data" /\ IsStatusReq(last.b)
      p == rs.pre[s]
      stt == IF sresp THEN RespState(b) ELSE 0
      c12r == <<
        <<"C12.reply.state", sresp => /\ (stt = 3) = p.in_ring
                                       /\ (stt = 2 => (p.ready /\ Da(b) = p.ps))     \* Da(b): the requester being answered
                                       /\ ((~p.ready /\ ~p.in_ring) => stt = 1)>>,
        <<"C12.reply.when", (sresp /\ ~single) => gap <= cfg.tsl>> >>
      (* ---- C06.single after recovery: transmissions need a permission class again *)
      c06 == << <<"C06.single", (FaultMode(cfg) /\ rs.reached /\ rs.tokensSinceReached > 2 * Cardinality(rs.online)) => cls # "None">> >>
      j11 == ~rs.garbled                    \* C11 needs a readable wire, not an unchanged population
      allc == (IF jring THEN c01 ELSE <<>>) \o (IF j11 THEN c11a \o c11t ELSE <<>>) \o (IF judged THEN c11o \o c12g \o c13 \o c12r ELSE <<>>) \o c06
      clause == FirstBad(allc)
      hits == (IF jring THEN <<"C01." \o cls>> ELSE <<>>)
              \o (IF j11 /\ accepting THEN <<"C11.accept">> ELSE <<>>)
              \o (IF j11 /\ retry THEN <<"C11.max3", "C11.silent">> ELSE <<>>)
              \o (IF j11 /\ moveOn THEN <<"C11.drop", "C11.patience">> ELSE <<>>)
              \o (IF judged /\ passOn /\ rs.expectSucc[s] # -1 THEN <<"C12.successor">> ELSE <<>>)
              \o (IF passOn /\ rs.reached THEN <<ConvProp(rs) \o ".order">> ELSE <<>>)
              \o (IF judged /\ gappoll THEN <<"C12.range">> ELSE <<>>)
              \o (IF judged /\ appreq /\ v.open /\ v.appreqs >= 1 /\ rs.recvPrev[s] # -1 THEN <<"C13.hold">> ELSE <<>>)
              \o (IF judged /\ endsVisit /\ ~single THEN <<"C13.starve">> ELSE <<>>)
              \o (IF judged /\ sresp THEN <<"C12.reply.state">> ELSE <<>>)
      (* ---- state update *)
      rs1 == [rs EXCEPT !.last = [by |-> s, t0 |-> e.t0, t1 |-> e.t1, b |-> b, app |-> rs.appsent[s]],
                        !.rogue = @ \/ rs.unread > 0, !.selfOffer[s] = FALSE, !.selfSeen = -1, !.joinedBusy[s] = FALSE, !.junkSince[s] = FALSE,
                        \* telegrams still unread in the PHY buffer will be acted on later: what the wire shows and what the
                        \* station has seen differ, the supervision episode cannot be counted from the wire
                        !.pasTaint = @ \/ rs.unread > 0,
                        !.unasked[s] = IF endsVisit THEN [a \in 0..3 |-> IF a \in rs.asked[s] \/ a >= napp THEN 0 ELSE @[a] + 1] ELSE @]
      \* heard watch: any transmission by someone else within tsl after a pass
      rs2 == IF rs.hw.by # -1 /\ rs.hw.by # s /\ gap < cfg.tsl /\ ~rs.hw.heard THEN [rs1 EXCEPT !.hw.heard = TRUE] ELSE rs1
      rs3 == IF cls = "Holder" /\ g.pending /\ ~IsResp(b) THEN [rs2 EXCEPT !.grant[s].pending = FALSE, !.offered[s] = {}] ELSE rs2
      rs4 == IF cls = "Claim" THEN [NewVisit(rs3, s, TRUE, FALSE, e.t1) EXCEPT !.grant[s] = NoGrant] ELSE rs3
      rs5 == IF k # "token" THEN rs4
             ELSE LET w == RotWitness(rs4, Sa(b), d, e.t0)
                      cnt == [w EXCEPT !.tokensSinceReached = IF rs.reached THEN @ + 1 ELSE 0]
                  IN IF d = s
                     THEN (IF cls = "Claim" THEN [cnt EXCEPT !.holder = s]
                           ELSE LET keep == v.open /\ v.claim /\ v.gappolls = 0 /\ ~v.tok2 IN
                                [NewVisit(cnt, s, keep, keep, e.t1) EXCEPT !.holder = s])
                     ELSE LET pas1 == IF retry THEN [rs.pas EXCEPT !.n = @ + 1] ELSE [by |-> s, to |-> d, n |-> 1]
                              a == [cnt EXCEPT !.rogue = (rs.unread > 0), !.pas = pas1, !.expectSucc[s] = -1, !.hw = [by |-> s, to |-> d, heard |-> FALSE, t |-> e.t1],
                                               !.holder = d, !.visit[s].open = FALSE]
                          IN IF d \in St
                             THEN NewVisit([a EXCEPT !.offered[d] = @ \cup {s}, !.grant[d] = Offer(rs, d, s)], d, FALSE, FALSE, e.t1)
                             ELSE a
      rs6 == IF gappoll THEN [rs5 EXCEPT !.visit[s].gappolls = @ + 1, !.cadPolled[s] = @ \cup {Da(b)}]
             ELSE IF appreq THEN [rs5 EXCEPT !.visit[s].appreqs = @ + 1]
             ELSE rs5
      rs7 == IF sresp /\ stt \in {2, 3} /\ RespStatus(b) = 0 /\ last.by \in St /\ ~last.app
             THEN [rs6 EXCEPT !.expectSucc[last.by] = s] ELSE rs6
      chainOk == k = "token" /\ s \in rs.online /\ (rs.lastTokDa = -1 \/ rs.lastTokDa = s) /\ d = Succ(rs.online, s)
      rs8 == IF k = "token" THEN [rs7 EXCEPT !.goodTokens = IF chainOk THEN @ + 1 ELSE 0, !.lastTokDa = d]
             ELSE IF cls = "None" THEN [rs7 EXCEPT !.goodTokens = 0] ELSE rs7
      rs9 == TryReach(rs8, e.t1)
      reachHit == IF ~rs.reached /\ rs9.reached THEN <<ConvProp(rs) \o ".converge">> ELSE <<>>
  IN RA(allc, [cls |-> cls, kind |-> k, st |-> s, f17 |-> f17], rs9, hits \o reachHit)

(* ------------------------------------------------------------------ transmissions of environment actors *)
(* scripted peers, reference slaves: they update what is on the wire but are not judged *)
OnEnvTx(rs, e) ==
  LET b == e.b  k == Kind(b)  St == rs.St  last == rs.last
      gap == e.t0 - last.t1
      isReply == last.by # -1 /\ ExpectsReply(last.b) /\ IsResp(b)
      \* a peer that transmits while a station under test holds the token (and is not answering
      \* it) leaves the protocol: holder tracking from the wire is unreliable until that station
      \* passes the token on
      \* (a token offered again to a station that has not acted on the previous offer is a retry, not rogue)
      rogue == rs.rogue \/ (rs.holder \in St /\ ~isReply /\ ~rs.grant[rs.holder].pending)
      rs1 == [rs EXCEPT !.last = [by |-> e.st, t0 |-> e.t0, t1 |-> e.t1, b |-> b, app |-> FALSE], !.rogue = rogue,
                        !.selfSeen = IF k = "token" /\ Sa(b) \in St /\ rs.unread = 0 THEN Sa(b) ELSE -1,
                        !.envSince = @ + 1,
                        !.goodTokens = 0,
                        \* a scripted peer "is heard" only with a well-formed telegram sent by the successor itself
                        !.hw = IF @.by # -1 /\ gap < rs.cfg.tsl /\ ~@.heard /\ k # "junk" /\ e.st = @.to /\ ~("hidden" \in DOMAIN e)
                               THEN [@ EXCEPT !.heard = TRUE] ELSE @,
                        \* whatever a scripted peer sends while a pass is supervised ends the episode the monitor can count
                        \* (it cannot know whether the station took it for the successor, for noise, or did not read it yet)
                        !.pas = NoPass, !.pasTaint = TRUE,
                        \* undecodable bytes reach the stations: until their next own transmission they may be in the
                        \* condition of finding F17 (bytes up to the discarded level are not counted as bus activity)
                        !.junkSince = IF k = "junk" \/ "hidden" \in DOMAIN e THEN [x \in St |-> TRUE] ELSE @]
      rs2 == IF k # "token" THEN rs1
             ELSE LET d == Da(b) sa == Sa(b)
                      w == RotWitness(rs1, sa, d, e.t0)
                  IN IF d \in St /\ sa = d
                     THEN [w EXCEPT !.lastTokDa = d, !.selfOffer[d] = (rs.holder # d)]
                     ELSE IF d \in St
                     THEN NewVisit([w EXCEPT !.holder = d, !.lastTokDa = d, !.offered[d] = @ \cup {sa}, !.grant[d] = Offer(rs, d, sa), !.selfOffer[d] = FALSE],
                                   d, FALSE, FALSE, e.t1)
                     ELSE [w EXCEPT !.holder = d, !.lastTokDa = d]
      sresp == k = "data" /\ ~IsReq(b) /\ last.by \in St /\ IsStatusReq(last.b) /\ ~last.app
      rs3 == IF sresp /\ RespState(b) \in {2, 3} /\ RespStatus(b) = 0 /\ Da(b) = last.by /\ Sa(b) = Da(last.b)
             THEN [rs2 EXCEPT !.expectSucc[last.by] = Sa(b)] ELSE rs2
  IN R("ok", NoSig, rs3, <<>>)

(* ------------------------------------------------------------------ Poll *)
OnPoll(rs, e) ==
  LET s == e.st cfg == rs.cfg
      judged == ~rs.disturbed
      hwme == rs.hw.by = s /\ rs.hw.heard
      \* (only while the pass could still be under supervision: three slot times; a later change of the ring view
      \* has other causes, e.g. somebody's claim token)
      heardOk == (hwme /\ e.t <= rs.hw.t + 4 * cfg.tsl) => ~(rs.hw.to \in ToSet(e.pre.las) /\ rs.hw.to \notin ToSet(e.post.las))
      becomesReady == ~e.pre.ready /\ e.post.ready
      r == rs.rot[s]
      \* (a station measures silence from the poll in which it last saw the bus busy; with the sparse polls of the
      \* single-station driver that can be up to two character times before the end of the last telegram)
      claimable == e.t - Max2(rs.last.t1, rs.since[s]) >= Tto(cfg, s) - (IF cfg.mode = "single" THEN 22 * (cfg.tid \div 33) ELSE cfg.us)
      readyOk == becomesReady => (r.claimed \/ r.ok \/ claimable)
      cadOk == ~rs.cadBad
      rs1 == [rs EXCEPT !.pub[s] = e.post, !.pre[s] = e.pre, !.appsent[s] = FALSE,
                        !.unread = IF "unread" \in DOMAIN e THEN e.unread ELSE 0,
                        !.hw = IF hwme THEN NoWatch ELSE @,
                        !.selfSeen = IF rs.selfSeen = s THEN -1 ELSE @, !.envSince = 0]
      wasReached == rs.reached
      nowAgree == AllAgree(rs1)
      stable == (wasReached /\ s \in rs.online) => Agree(rs1, s)
      rs2 == TryReach(rs1, e.t)
      late == ConvActive(rs) /\ ~rs2.reached /\ e.t > Deadline(rs)
      single == cfg.mode = "single"
      \* the only telegram since the station's last poll is a token bearing its own address as source: nobody handed
      \* anything over - the ring view must not change
      unread0 == rs.unread = 0 /\ (IF "unread" \in DOMAIN e THEN e.unread = 0 ELSE TRUE)
      ownOk == (rs.selfSeen = s /\ rs.envSince = 1 /\ unread0 /\ e.pre.in_ring) => (e.pre.las = e.post.las /\ e.pre.ns = e.post.ns /\ e.pre.ps = e.post.ps)
      cs == (IF ~rs.garbled THEN << <<"C11.own", ownOk>> >> ELSE <<>>)
            \o (IF ~rs.garbled /\ ~single THEN << <<"C11.heard", heardOk>> >> ELSE <<>>) \o (IF judged /\ ~single THEN << <<"C12.cadence", cadOk>> >> ELSE <<>>)
            \o (IF judged THEN << <<"C12.ready", readyOk>> >> ELSE <<>>)
            \o << <<ConvProp(rs) \o ".stable", stable>>, <<ConvProp(rs) \o ".converge", ~late>> >>
      hits == (IF judged /\ ~single /\ hwme THEN <<"C11.heard">> ELSE <<>>) \o (IF rs.selfSeen = s /\ rs.envSince = 1 /\ unread0 /\ e.pre.in_ring THEN <<"C11.own">> ELSE <<>>)
              \o (IF judged /\ becomesReady THEN <<"C12.ready">> ELSE <<>>)
              \o (IF wasReached /\ s \in rs.online THEN <<ConvProp(rs) \o ".stable">> ELSE <<>>)
              \o (IF ~wasReached /\ rs2.reached THEN <<ConvProp(rs) \o ".converge">> ELSE <<>>)
      \* a cadence overrun is reported once: restart the counters
      rs3 == IF cadOk THEN rs2 ELSE [rs2 EXCEPT !.cadBad = FALSE]
  IN RA(cs, [st |-> s, f17 |-> (becomesReady /\ rs.last.by # s /\ rs.last.t1 > 0 /\ e.t <= rs.last.t1 + cfg.tid /\ (rs.joinedBusy[s] \/ rs.junkSince[s])
                               /\ ToSet(e.post.las) = {s})], rs3, hits)     \* ready through a claim (list reset to itself)

(* ------------------------------------------------------------------ Cb (C15) *)
OnCb(rs, e) ==
  LET s == e.st a == e.app n == NApps(rs.cfg, s)
      judged == ~rs.disturbed
  IN IF e.k = "transmit" THEN
       LET cs == <<
             <<"C15.holder", rs.cfg.mode # "single" => (rs.holder = s /\ rs.outstanding[s] = -1)>>,
             \* (single-station runs: the adversarial peer can leave tokens unread in the PHY buffer, so the visits
             \* seen on the wire are not the visits the station lives through - the per-visit clauses are not judged)
             <<"C15.rr", (rs.cfg.mode # "single" /\ rs.rrNext[s] # -1) => rs.rrNext[s] = a>>,
             <<"C15.done", rs.cfg.mode # "single" => a \notin rs.declined[s]>>,
             \* "it may always perform one message cycle per token visit": once the guaranteed cycle (asked with
             \* high priority only, because the hold time is over) has been used, nobody is asked again in this visit
             <<"C15.once", rs.cfg.mode # "single" => ~rs.hpUsed[s]>> >>
           rs0 == [rs EXCEPT !.asked[s] = @ \cup {a}, !.sentInVisit[s] = @ \/ e.sent, !.hpUsed[s] = @ \/ (e.sent /\ e.hp)]
           rs1 == IF e.sent
                  THEN [rs0 EXCEPT !.appsent[s] = TRUE, !.outstanding[s] = IF e.reply THEN a ELSE -1, !.rrNext[s] = a]
                  ELSE [rs0 EXCEPT !.declined[s] = @ \cup {a}, !.rrNext[s] = (a + 1) % n]
       IN RA(IF judged THEN cs ELSE <<>>, [st |-> s, k |-> e.k], rs1, IF judged THEN <<"C15.holder", "C15.rr">> ELSE <<>>)
     ELSE
       LET cs == <<
             <<"C15.match", rs.outstanding[s] = a>>,
             <<"C15.form", e.k = "reply" => (e.tk = "sc" \/ (e.tk = "data" /\ e.resp /\ e.sa = e.addr /\ e.da = s))>> >>
           rs1 == [rs EXCEPT !.outstanding[s] = -1]
       IN RA(IF judged THEN cs ELSE <<>>, [st |-> s, k |-> e.k], rs1, IF judged THEN <<"C15.match", "C15." \o e.k>> ELSE <<>>)

(* ------------------------------------------------------------------ population / faults / end *)
OnOnline(rs, e) ==
  LET s == e.st IN
  R("ok", NoSig,
    [rs EXCEPT !.online = @ \cup {s}, !.since[s] = e.t, !.lastPop = e.t, !.reached = FALSE, !.goodTokens = 0,
               !.pub[s] = NoView, !.pre[s] = NoView, !.rot[s] = NoRot, !.grant[s] = NoGrant,
               !.visit[s] = NoVisit, !.recvPrev[s] = -1, !.recvCur[s] = -1, !.outstanding[s] = -1,
               !.rrNext[s] = -1, !.cadNs[s] = -1, !.offered[s] = {}, !.rogue = FALSE,
               \* the station comes online while a telegram is on the wire: it cannot decode what it hears (F17)
               !.joinedBusy[s] = (rs.last.by \notin {-1, s} /\ e.t < rs.last.t1)], <<>>)
OnOffline(rs, e) ==
  \* a station that stops between its transmissions leaves the wire readable (the hand-over clauses of C11 stay
  \* judged); one that is cut off in the middle of a telegram garbles it
  R("ok", NoSig, [rs EXCEPT !.online = @ \ {e.st}, !.lastPop = e.t, !.reached = FALSE, !.disturbed = TRUE, !.goodTokens = 0,
                            !.garbled = @ \/ (IF "mid_tx" \in DOMAIN e THEN e.mid_tx ELSE TRUE),
                            !.holder = IF @ = e.st THEN -1 ELSE @], <<>>)
OnEnd(rs, e) ==
  LET late == ConvActive(rs) /\ ~rs.reached /\ e.t >= Deadline(rs)
      maxTto == SetMax({Tto(rs.cfg, s) : s \in rs.St})
      silent == FaultMode(rs.cfg) /\ rs.reached /\ rs.online # {}
                /\ e.t - rs.last.t1 > maxTto + 4 * rs.cfg.tsl * Cardinality(rs.St)
      cs == << <<ConvProp(rs) \o ".converge", ~late>>, <<"C06.alive", ~silent>> >>
  IN RA(cs, [reached |-> rs.reached], rs, <<ConvProp(rs) \o ".end">>)

RuleStep(rs, e) ==
  CASE e.ev = "Tx"        -> IF "env" \in DOMAIN e THEN OnEnvTx(rs, e) ELSE OnTx(rs, e)
    [] e.ev = "Poll"      -> OnPoll(rs, e)
    [] e.ev = "Cb"        -> OnCb(rs, e)
    [] e.ev = "Online"    -> OnOnline(rs, e)
    [] e.ev = "Offline"   -> OnOffline(rs, e)
    [] e.ev = "Fault"     -> R("ok", NoSig, [rs EXCEPT !.disturbed = TRUE, !.garbled = TRUE, !.reached = FALSE, !.goodTokens = 0], <<>>)
    [] e.ev = "Collision" -> R(IF rs.disturbed THEN "ok" ELSE "C01.overlap", [cls |-> "Collision", kind |-> "", st |-> e.st],
                               [rs EXCEPT !.disturbed = TRUE, !.garbled = TRUE, !.goodTokens = 0], <<>>)
    [] e.ev = "FaultsEnd" -> R("ok", NoSig, [rs EXCEPT !.faultsEnd = e.t, !.reached = FALSE, !.goodTokens = 0], <<>>)
    [] e.ev = "Panic"     -> R("C05.panic", [loc |-> e.loc], rs, <<>>)
    [] e.ev = "Hang"      -> R("C05.hang", NoSig, rs, <<>>)
    [] e.ev = "End"       -> OnEnd(rs, e)
    [] OTHER              -> R("ok", NoSig, rs, <<>>)

PropOf(c) == CASE c \in {"C01.overlap", "C01.permission", "C01.tsdr", "C01.tid"} -> "C01"
               [] c \in {"C02.order", "C02.stable", "C02.converge", "C02.end"} -> "C02"
               [] c \in {"C05.panic", "C05.hang"} -> "C05"
               [] c \in {"C06.order", "C06.stable", "C06.converge", "C06.end", "C06.single", "C06.alive"} -> "C06"
               [] c \in {"C11.accept", "C11.max3", "C11.silent", "C11.immediate", "C11.drop", "C11.patience", "C11.heard", "C11.own"} -> "C11"
               [] c \in {"C12.range", "C12.one", "C12.cadence", "C12.successor", "C12.reply.state", "C12.reply.when", "C12.ready"} -> "C12"
               [] c \in {"C13.hold", "C13.starve"} -> "C13"
               [] OTHER -> "C15"
AllClauses == {"C01.overlap", "C01.permission", "C01.tsdr", "C01.tid", "C01.Reply", "C01.Holder", "C01.PassSupervision", "C01.Claim", "C01.None",
               "C11.accept", "C11.max3", "C11.silent", "C11.immediate", "C11.drop", "C11.patience", "C11.heard", "C11.own",
               "C12.range", "C12.one", "C12.cadence", "C12.successor", "C12.reply.state", "C12.reply.when", "C12.ready",
               "C13.hold", "C13.starve",
               "C15.holder", "C15.rr", "C15.done", "C15.once", "C15.match", "C15.form", "C15.reply", "C15.timeout",
               "C02.order", "C02.stable", "C02.converge", "C02.end", "C06.order", "C06.stable", "C06.converge", "C06.end",
               "C06.single", "C06.alive", "C05.panic", "C05.hang"}
=============================================================================
