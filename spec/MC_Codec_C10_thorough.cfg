SPECIFICATION Spec
CONSTANTS
  Alphabet = {16, 104, 162, 220, 22, 229, 0, 3, 5, 73, 127, 255}
  MaxLen = 7
  Addrs = {2, 127}
  Saps <- QSaps
  PduLens = {0, 1, 2, 8, 9, 17}
  SubstVals <- TSubst
  SubstMaxLen = 32
INVARIANT DecoderClauses
INVARIANT NoMisAccept
PROPERTY PrefixConsistent
CHECK_DEADLOCK FALSE
