SPECIFICATION Spec
CONSTANTS Stations = {1, 2, 4} HSA = 5 G = 1 Base = 2 S = 4 JoinBudget = 2 LeaveBudget = 1 DropBudget = 2 ColdTogether = TRUE
  FixF2 = TRUE FixF3 = TRUE FixF14 = TRUE
INVARIANT NoBad
CHECK_DEADLOCK FALSE
